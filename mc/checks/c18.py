"""C18 — FPU control context always restores the control register (explicit-state search on the
real hardware register).

Events: create(k; FZ, DAZ, RN) | enter(k) | exit (innermost) | raise(n) (an exception unwinds the n
innermost contexts).  LIFO discipline, nesting depth <= D, at most 3 context objects, at most one
raised exception.  Both idioms arise: inline (create immediately before enter) and hoisted (created
earlier -- possibly under another register state -- entered later, re-used, re-entered).
Initial register states: power-on default and every combination of FZ/DAZ/RN pre-set.
BFS over canonical model states; every state is reached by replaying its history on fresh real
`fpu.MXCSRRegister` objects; after every event the 16-bit control word read through the harness's
own `stmxcsr` stub is compared with the reference model (integer register + stack of saved
values), and arithmetic probes check that the body observes the requested mode.
Complete, well-nested histories are additionally replayed as generated Python source using real
`with` statements, `try/except` and the decorator form.
"""

from __future__ import annotations

import ctypes
import itertools
import mmap

import numpy as np

from mc.harness import add_violation, bump, new_part, setup_repo_import

PROPERTY = "C18"
LEVEL = "model_checking"
MOD = "mc.checks.c18"

CTRL = 0xFFC0  # control bits (DAZ, exception masks, RC, FZ); bits 0..5 are sticky status flags
FZ_BIT, DAZ_BIT = 1 << 15, 1 << 6
RC = {"nearest": 0, "down": 1, "up": 2, "towardszero": 3}
DEFAULT = 0x1F80


class Stub:
    """the harness's own ldmxcsr/stmxcsr stubs (independent of functional_algorithms.fpu)."""

    _inst = None

    def __init__(self):
        buf = mmap.mmap(-1, mmap.PAGESIZE, prot=mmap.PROT_READ | mmap.PROT_WRITE)
        self._buf = buf
        addr = ctypes.addressof(ctypes.c_void_p.from_buffer(buf))
        buf.write(b"\x0F\xAE\x17\xC3" + b"\x90" * 4)  # ldmxcsr [rdi]; ret
        buf.write(b"\x0F\xAE\x1F\xC3" + b"\x90" * 4)  # stmxcsr [rdi]; ret
        mprotect = ctypes.CDLL(None, use_errno=True).mprotect
        mprotect.argtypes = [ctypes.c_void_p, ctypes.c_size_t, ctypes.c_int]
        mprotect.restype = ctypes.c_int
        assert mprotect(addr, mmap.PAGESIZE, mmap.PROT_READ | mmap.PROT_EXEC) == 0
        self._set = ctypes.CFUNCTYPE(None, ctypes.POINTER(ctypes.c_uint32))(addr)
        self._get = ctypes.CFUNCTYPE(None, ctypes.POINTER(ctypes.c_uint32))(addr + 8)

    @classmethod
    def get_inst(cls):
        if cls._inst is None:
            cls._inst = cls()
        return cls._inst

    def get(self):
        v = ctypes.c_uint32()
        self._get(ctypes.byref(v))
        return v.value

    def set(self, value):
        self._set(ctypes.byref(ctypes.c_uint32(value)))


def apply_args(reg, args):
    """reference semantics of entering a context: exactly the requested fields change."""
    FZ, DAZ, RN = args
    if RN is not None:
        reg = (reg & ~(3 << 13)) | (RC[RN] << 13)
    if FZ is not None:
        reg = (reg | FZ_BIT) if FZ else (reg & ~FZ_BIT)
    if DAZ is not None:
        reg = (reg | DAZ_BIT) if DAZ else (reg & ~DAZ_BIT)
    return reg


_S32 = np.float32(np.finfo(np.float32).smallest_normal)
_SUB32 = np.float32(np.finfo(np.float32).smallest_subnormal)
_HALF = np.float32(0.5)
_ONE = np.float32(1)
_TINY = np.float32(2.0 ** -30)
_ZERO = np.float32(0)


def probes():
    """what arithmetic observes right now: (ftz, daz, rounding class)."""
    with np.errstate(all="ignore"):
        ftz = int((_S32 * _HALF).view(np.uint32)) == 0  # bit test: a DAZ comparison would also see a subnormal as zero
        daz = bool(_SUB32 == _ZERO)
        up = bool(_ONE + _TINY > _ONE)
        dn = bool(-_ONE - _TINY < -_ONE)
    rc = {(False, False): "nearest-or-tz", (True, False): "up", (False, True): "down", (True, True): "?"}[(up, dn)]
    return ftz, daz, rc


def expected_probes(reg):
    rc = (reg >> 13) & 3
    return bool(reg & FZ_BIT), bool(reg & DAZ_BIT), {0: "nearest-or-tz", 3: "nearest-or-tz", 2: "up", 1: "down"}[rc]


class Boom(Exception):
    pass


def replay_history(fa, hist, init_reg, check=True):
    """Run one history on fresh real objects.  Returns (violations, model_state, observed trace)."""
    stub = Stub.get_inst()
    Rs = [fa.fpu.MXCSRRegister(), fa.fpu.MXCSRRegister()]  # two register objects (the hardware register is one per thread)
    viols = []
    objs = []  # real context objects
    margs = []  # model: (args, created_reg, register object index)
    stack = []  # model: (saved_reg, k)
    trace = []
    stub.set(init_reg)
    reg = init_reg
    try:
        for ev in hist:
            kind = ev[0]
            try:
                if kind == "create":
                    ri = ev[4] if len(ev) > 4 else 0
                    objs.append(Rs[ri](FZ=ev[1], DAZ=ev[2], RN=ev[3]))
                    margs.append(((ev[1], ev[2], ev[3]), reg, ri))
                elif kind == "enter":
                    k = ev[1]
                    stack.append((reg, k))
                    reg = apply_args(reg, margs[k][0])
                    objs[k].__enter__()
                elif kind == "exit":
                    saved, k = stack.pop()
                    reg = saved
                    objs[k].__exit__(None, None, None)
                elif kind == "raise":
                    n = ev[1]
                    try:
                        raise Boom("raised inside the body")
                    except Boom as e:
                        import sys

                        ei = sys.exc_info()
                        for _ in range(n):
                            saved, k = stack.pop()
                            reg = saved
                            r = objs[k].__exit__(*ei)
                            if r:
                                viols.append(("context-swallows-exception", f"__exit__ returned {r!r}"))
            except AssertionError as e:
                cls = "re-entering-the-same-context-object" if kind == "enter" and any(kk == ev[1] for _, kk in stack[:-1]) else kind
                viols.append((f"raises-AssertionError:{cls}", f"event {ev}: AssertionError {e}"))
                break
            except Exception as e:
                viols.append((f"raises-{type(e).__name__}:{kind}", f"event {ev}: {type(e).__name__}: {e}"))
                break
            real = stub.get()
            obs = probes()
            after_probes = stub.get()
            trace.append((real & CTRL, obs))
            if check:
                # the whole register is compared: the six sticky status flags (bits 0..5) are part of "the value it had on
                # entry" and of "changes only the requested bits"; the arithmetic probes run between events raise flags, which
                # the model takes over from the hardware after every probe (environment input)
                if (real & 0xFFFF) != (reg & 0xFFFF):
                    diff = (real ^ reg) & 0xFFFF
                    what = []
                    if diff & 0x3F:
                        what.append("status-flags")
                    if diff & FZ_BIT:
                        what.append("FZ")
                    if diff & DAZ_BIT:
                        what.append("DAZ")
                    if diff & (3 << 13):
                        what.append("RC")
                    if diff & 0x1F80:
                        what.append("masks")
                    hoisted = any(m[1] != None for m in margs) and kind in ("enter",) and margs[ev[1]][1] & CTRL != (stack[-1][0] & CTRL)
                    where = {"enter": "after-enter", "exit": "after-exit", "raise": "after-exception", "create": "after-create"}[kind]
                    viols.append((f"register-mismatch:{where}:{'hoisted-context' if (kind == 'enter' and hoisted) else 'inline'}:{'+'.join(what)}",
                                  f"after {ev}: MXCSR {real & 0xFFFF:#06x}, reference model {reg & 0xFFFF:#06x} (history {hist}, initial {init_reg:#06x})"))
                    break
                if obs != expected_probes(real):
                    viols.append(("arithmetic-does-not-observe-register", f"after {ev}: probes {obs} but register {real:#06x}"))
                    break
                if (after_probes & CTRL) != (real & CTRL):
                    viols.append(("probes-changed-control-bits", f"after {ev}: {real:#06x} -> {after_probes:#06x}"))
                    break
            reg = (reg & ~0x3F) | (after_probes & 0x3F)
    finally:
        stub.set(DEFAULT)
    return viols, (reg, tuple(stack), tuple(margs)), trace


def enabled(model, depth_max, raised, nobj_max, argsets):
    reg, stack, margs = model
    evs = []
    if len(margs) < nobj_max:
        for a in argsets:
            evs.append(("create",) + a + (0,))
            if len(margs) == 1:  # the first context is made from register object 0 (symmetry); the second from either; a third from object 0
                evs.append(("create",) + a + (1,))
    if len(stack) < depth_max:
        for k in range(len(margs)):
            evs.append(("enter", k))
    if stack:
        evs.append(("exit",))
        if not raised:
            for n in range(1, len(stack) + 1):
                evs.append(("raise", n))
    return evs


def canon(model, raised):
    reg, stack, margs = model
    return (reg & CTRL, tuple((s & CTRL, k) for s, k in stack), tuple((m[0], m[1] & CTRL, m[2]) for m in margs), raised)


def explore(fa, init_reg, argsets, depth_max, nobj_max, max_len, part):
    from collections import deque

    seen = set()
    start = (init_reg, (), ())
    seen.add(canon(start, False))
    frontier = deque([((), start, False)])
    states = transitions = 0
    maxdepth = 0
    while frontier:
        hist, model, raised = frontier.popleft()
        states += 1
        maxdepth = max(maxdepth, len(hist))
        if len(hist) >= max_len:
            continue
        for ev in enabled(model, depth_max, raised, nobj_max, argsets):
            h2 = hist + (ev,)
            viols, m2, _ = replay_history(fa, h2, init_reg)
            transitions += 1
            part["evaluations"] += 1
            if viols:
                for sig, msg in viols:
                    # believe a failure only if it reproduces
                    v2, _, _ = replay_history(fa, h2, init_reg)
                    if [s for s, _ in v2] != [s for s, _ in viols]:
                        add_violation(part, "nondeterministic-replay", f"history {h2} gave {viols} then {v2}", {"history": [list(e) for e in h2], "init": init_reg})
                        break
                    add_violation(part, sig, msg, {"history": [list(e) for e in h2], "init": init_reg})
                continue  # do not explore beyond a violating state
            r2 = raised or ev[0] == "raise"
            c = canon(m2, r2)
            if c not in seen:
                seen.add(c)
                frontier.append((h2, m2, r2))
    return states, transitions, maxdepth


# ------------------------------------------------------------------ real `with` statements


def gen_with_source(shape):
    """shape: nested list structure; each node = (k, mode, children) with mode in {'with','decorator'};
    one optional leaf raises.  Returns python source of `def run(objs, log, probe)`."""
    lines = ["def run(objs, log, probe, Boom):"]
    counter = [0]

    def emit(node, ind):
        k, mode, children, raises = node
        pad = "    " * ind
        if mode == "with":
            lines.append(f"{pad}with objs[{k}]:")
            lines.append(f"{pad}    log.append(('in', {k}, probe()))")
            for ch in children:
                emit(ch, ind + 1)
            if raises:
                lines.append(f"{pad}    raise Boom()")
        else:
            counter[0] += 1
            fn = f"_f{counter[0]}"
            lines.append(f"{pad}@objs[{k}]")
            lines.append(f"{pad}def {fn}():")
            lines.append(f"{pad}    log.append(('in', {k}, probe()))")
            for ch in children:
                emit(ch, ind + 1)
            if raises:
                lines.append(f"{pad}    raise Boom()")
            lines.append(f"{pad}    return None")
            lines.append(f"{pad}{fn}()")
        lines.append(f"{pad}log.append(('out', {k}, probe()))")

    lines.append("    try:")
    emit(shape, 2)
    lines.append("    except Boom:")
    lines.append("        log.append(('caught', -1, probe()))")
    return "\n".join(lines) + "\n"


def with_shapes(nobj, depth):
    """all single-chain nestings of length 1..depth over object indices (repetition allowed only for
    distinct objects), x mode per level x optional raise at the innermost level."""
    out = []
    for d in range(1, depth + 1):
        for ks in itertools.permutations(range(nobj), d):
            for modes in itertools.product(("with", "decorator"), repeat=d):
                for raises in (False, True):
                    node = None
                    for lvl in reversed(range(d)):
                        node = (ks[lvl], modes[lvl], [node] if node else [], raises and lvl == d - 1)
                    out.append(node)
    return out


def run_with_validation(fa, part, init_reg, argsets):
    """generated source with real `with`/decorators; objects created up-front (hoisted) or inline."""
    stub = Stub.get_inst()
    n = 0
    combos = list(itertools.product(argsets, repeat=2))
    for a0, a1 in combos[:: max(1, len(combos) // 24)]:
        for shape in with_shapes(2, 2):
            src = gen_with_source(shape)
            ns = {}
            exec(src, ns)
            R = fa.fpu.MXCSRRegister()
            stub.set(init_reg)
            try:
                objs = [R(FZ=a0[0], DAZ=a0[1], RN=a0[2]), R(FZ=a1[0], DAZ=a1[1], RN=a1[2])]
                log = []
                try:
                    ns["run"](objs, log, lambda: stub.get() & CTRL, Boom)
                except Exception as e:
                    add_violation(part, f"with-statement:raises-{type(e).__name__}", f"{type(e).__name__}: {e} in\n{src}", {"with_src": src, "init": init_reg, "args": [list(a0), list(a1)]})
                    continue
                # reference
                margs = [a0, a1]
                exp = []
                reg = init_reg
                st = []

                def walk(node):
                    nonlocal reg
                    k, mode, children, raises = node
                    st.append(reg)
                    reg = apply_args(reg, margs[k])
                    exp.append(("in", k, reg & CTRL))
                    ok = True
                    for ch in children:
                        ok = walk(ch) and ok
                    reg = st.pop()
                    if raises or not ok:
                        return False
                    exp.append(("out", k, reg & CTRL))
                    return True

                ok = walk(shape)
                if not ok:
                    exp.append(("caught", -1, reg & CTRL))
                n += 1
                part["evaluations"] += 1
                if log != exp:
                    add_violation(part, "with-statement:register-mismatch", f"real with/decorator run logged {log}, model {exp}; objects {a0},{a1}; source:\n{src}", {"with_src": src, "init": init_reg, "args": [list(a0), list(a1)]})
                final = stub.get() & CTRL
                if final != init_reg & CTRL:
                    add_violation(part, "with-statement:not-restored", f"after the outermost block MXCSR {final:#06x} != {init_reg & CTRL:#06x}", {"with_src": src, "init": init_reg, "args": [list(a0), list(a1)]})
            finally:
                stub.set(DEFAULT)
    return n


def w_explore(task):
    fa = setup_repo_import()
    part = new_part()
    argsets = [tuple(a) for a in task["argsets"]]
    st, tr, md = explore(fa, task["init"], argsets, task["depth"], task["nobj"], task["max_len"], part)
    part["counters"]["states"] = st
    part["counters"]["transitions"] = tr
    part["counters"]["max_depth"] = md
    nw = run_with_validation(fa, part, task["init"], argsets)
    part["counters"]["with_programs"] = nw
    part["nontrivial"] += st
    part["samples"].append({"init": hex(task["init"]), "argsets": len(argsets), "states": st, "transitions": tr, "example_history": [["create", True, None, None], ["create", False, None, "up"], ["enter", 0], ["enter", 1], ["raise", 2]]})
    return part


ALL_ARGS = [(fz, daz, rn) for fz in (None, True, False) for daz in (None, True, False) for rn in (None, "nearest", "down", "up", "towardszero")]


def run(run):
    thorough = run.tier == "thorough"
    fa = setup_repo_import()
    if not fa.fpu.MXCSRRegister.is_available():
        raise RuntimeError("MXCSR not available on this platform")
    inits = [DEFAULT]
    for fz in (0, FZ_BIT):
        for daz in (0, DAZ_BIT):
            for rc in range(4):
                v = (DEFAULT & ~(FZ_BIT | DAZ_BIT | (3 << 13))) | fz | daz | (rc << 13)
                if v not in inits:
                    inits.append(v)
    inits += [DEFAULT | 0x3F]  # sticky status flags pre-set
    if thorough:
        argsets = ALL_ARGS
        depth, nobj, max_len = 3, 3, 8
    else:
        sel = [(True, None, None), (False, None, None), (None, True, None), (None, False, None), (None, None, "up"), (None, None, "nearest"), (True, True, "down"), (None, None, None), (False, True, "towardszero"), (True, False, None)]
        k = run.seed % len(ALL_ARGS)
        argsets = sel + [ALL_ARGS[k], ALL_ARGS[(k + 17) % len(ALL_ARGS)]]
        argsets = list(dict.fromkeys(argsets))
        depth, nobj, max_len = 3, 2, 7
        inits = inits[:: 2] + [inits[-1]]
    tasks = []
    # shard by the first created object's arguments is not possible in a BFS; shard by initial state
    for init in inits:
        if thorough:
            for i in range(0, len(argsets), 9):
                tasks.append(dict(init=init, argsets=[list(a) for a in argsets[i:i + 9]] + [[True, None, None]], depth=depth, nobj=nobj, max_len=max_len))
        else:
            tasks.append(dict(init=init, argsets=[list(a) for a in argsets], depth=depth, nobj=nobj, max_len=max_len))
    run.map(MOD, "w_explore", tasks)
    run.coverage_extra["states"] = int(run.counters.get("states", 0))
    run.coverage_extra["transitions"] = int(run.counters.get("transitions", 0))
    run.coverage_extra["traces_validated_against_impl"] = int(run.counters.get("transitions", 0) + run.counters.get("with_programs", 0))
    run.coverage_extra["max_depth"] = int(run.counters.get("max_depth", 0))
    run.coverage_extra["initial_register_states"] = [hex(i) for i in inits]
    run.rule = (
        f"BFS over histories of create/enter/exit/raise events (nesting depth <= {depth}, <= {nobj} context objects, <= 1 exception, length <= {max_len}) from "
        f"{len(inits)} initial register states with {len(argsets)} argument combinations; every transition is a replay of the whole history on fresh real fpu objects with "
        "the MXCSR read back after every event; complete nestings additionally as generated source with real with-statements / decorators; "
        "states are canonicalised as (control bits, saved stack, per-object (arguments, register at creation))"
    )
    run.assumptions = ["single thread (MXCSR is per thread)", "exception masks are not unmasked (that would turn the arithmetic probes into traps)", "status flag bits 0..5 are excluded from comparisons: any arithmetic sets them"]


def replay(case):
    fa = setup_repo_import()
    part = new_part()
    if "history" in case:
        hist = tuple(tuple(e) for e in case["history"])
        v, _, _ = replay_history(fa, hist, case["init"])
        v2, _, _ = replay_history(fa, hist, case["init"])
        assert [s for s, _ in v] == [s for s, _ in v2]
        return v
    p2 = new_part()
    # re-run the generated with-program
    stub = Stub.get_inst()
    ns = {}
    exec(case["with_src"], ns)
    R = fa.fpu.MXCSRRegister()
    stub.set(case["init"])
    try:
        objs = [R(FZ=a[0], DAZ=a[1], RN=a[2]) for a in case["args"]]
        log = []
        try:
            ns["run"](objs, log, lambda: stub.get() & CTRL, Boom)
        except Exception as e:
            return [(f"with-statement:raises-{type(e).__name__}", str(e))]
        final = stub.get() & CTRL
        if final != case["init"] & CTRL:
            return [("with-statement:not-restored", f"{final:#06x}")]
    finally:
        stub.set(DEFAULT)
    return []
