#!/bin/sh
# usage: tools_run_seeds.sh "C02 C03 ..." "0 1 2"   -- runs quick tiers under several seeds, summarises
cd /verif
for id in $1; do
  for seed in $2; do
    out=$(VERIF_NO_EVIDENCE=1 VERIF_SEED=$seed timeout 1800 ./check $id --tier quick 2>&1)
    rc=$?
    echo "$id seed=$seed rc=$rc $(echo "$out" | grep "^$id tier" | cut -c1-160)"
    echo "$out" | grep "signature" | sort | uniq -c | head -8
  done
done
