"""C07 — expression identity is structural identity (explicit-state search over construction
histories of one Context).

Events: symbol(name, type) | constant(value, like-symbol) | op(kind, operand indices [, Python number]).
Level-synchronous BFS bounded by the number of distinct structural terms in the context; each
state is rebuilt by replaying its history on a fresh real `Context`.  Two families, each enumerated
completely: F1 "leaves" (all symbol/constant events; ops add, select) and F2 "structure" (leaves
x, y, 0, 1; all op kinds and arities, Python-number operands).
Reference model: structural terms as nested tuples; a constant is (type name, bit pattern of the
value incl. sign of zero / canonical NaN, like term), named constants under the documented
spelling normalisation.  Invariant in every state, for all pairs of constructed nodes:
`impl[i] is impl[j]`  <=>  `term[i] == term[j]`.
Canonical state = set of terms + for every class of ==-equal constants which member was registered
first (the only order-sensitive behaviour), so both orders of every colliding pair are visited.
"""

from __future__ import annotations

import itertools
import math
import struct

import numpy as np

from mc.harness import add_violation, bump, new_part, quiet, setup_repo_import

PROPERTY = "C07"
LEVEL = "model_checking"
MOD = "mc.checks.c07"

SYMS = [("x", "float"), ("y", "float"), ("x", "float32"), ("x", "float64"), ("x", "complex"), ("y", "float32")]
_NAN = math.nan


def const_values():
    return [
        ("int0", lambda: 0), ("int1", lambda: 1), ("f0", lambda: 0.0), ("fneg0", lambda: -0.0), ("f1", lambda: 1.0), ("true", lambda: True), ("false", lambda: False),
        ("nan_shared", lambda: _NAN), ("nan_fresh", lambda: float("nan")), ("finf", lambda: math.inf), ("s_posinf", lambda: "posinf"), ("s_inf", lambda: "inf"),
        ("s_largest", lambda: "largest"), ("np32_0", lambda: np.float32(0)), ("np32_neg0", lambda: np.float32(-0.0)), ("np32_1", lambda: np.float32(1)),
        ("np64_1", lambda: np.float64(1)), ("c0", lambda: 0j), ("cneg0", lambda: complex(-0.0, 0.0)), ("f2", lambda: 2.0), ("fm2", lambda: -2.0),
        # neighbouring values of every NumPy scalar type (a key that converts or rounds the value collides them)
        ("np64_1eps", lambda: np.float64(1) + np.finfo(np.float64).eps), ("np32_1eps", lambda: np.float32(1) + np.finfo(np.float32).eps),
        ("ld_1", lambda: np.longdouble(1)), ("ld_1eps", lambda: np.longdouble(1) + np.finfo(np.longdouble).eps),
        ("cld_1", lambda: np.clongdouble(1 + 2j)), ("cld_1eps", lambda: np.clongdouble(1 + 2j) + np.finfo(np.longdouble).eps),
        ("c64_1", lambda: np.complex64(1 + 2j)), ("c128_1", lambda: np.complex128(1 + 2j)),
        ("i64_1", lambda: np.int64(1)), ("i32_1", lambda: np.int32(1)), ("big", lambda: 2 ** 53), ("big1", lambda: 2 ** 53 + 1),
    ]


CONSTS = dict(const_values())
STR_NORMAL = {"+inf": "posinf", "inf": "posinf", "pinf": "posinf", "-inf": "neginf", "ninf": "neginf"}


def _bits(a):
    """hex of the value bits; x87 extended values carry 6 uninitialised padding bytes that are not part of the value."""
    b = a.tobytes()
    if a.dtype == np.longdouble and len(b) == 16 and np.finfo(np.longdouble).nmant == 63:
        b = b[:10]
    return b.hex()


def _zero_bits(bits):
    """True if the (possibly nested) hex encodes +-0 in every component."""
    if isinstance(bits, tuple):
        return all(_zero_bits(x) for x in bits)
    if not isinstance(bits, str) or not bits or any(c not in "0123456789abcdef" for c in bits):
        return False
    return bits.replace("0", "") in ("", "8")


def value_term(v):
    """(type name, canonical bits) of a constant value -- independent of Python's == on floats."""
    if isinstance(v, str):
        return ("str", STR_NORMAL.get(v, v))
    if isinstance(v, (bool, np.bool_)):
        return (type(v).__name__, bool(v))
    if isinstance(v, (int, np.integer)):
        return (type(v).__name__, int(v))
    if isinstance(v, (float, np.floating)):
        a = np.asarray(v)
        if np.isnan(a):
            return (type(v).__name__, "nan")
        return (type(v).__name__, _bits(a))
    if isinstance(v, np.complexfloating):
        return (type(v).__name__, (_bits(np.asarray(v.real)), _bits(np.asarray(v.imag))))
    if isinstance(v, complex):
        return (type(v).__name__, (value_term(float(v.real))[1], value_term(float(v.imag))[1]))
    raise TypeError(type(v))


def eqclass(v):
    """class of values that compare equal under Python == within one type name (what can collide)."""
    t = type(v).__name__
    if isinstance(v, str):
        return (t, STR_NORMAL.get(v, v))
    try:
        if v != v:
            return (t, "nan", id(v) if v is _NAN else "fresh")
    except Exception:
        pass
    return (t, v)  # hash/eq merges 0.0 and -0.0


OPS1 = ["negative", "absolute", "real"]
OPS2 = ["add", "subtract", "multiply", "lt", "complex", "list"]
OPS3 = ["select"]
NUMS = {"p0": 0.0, "n0": -0.0, "one": 1, "two": 2.0}


def apply_event(fa, ctx, nodes, terms, ev):
    """returns (node, term).  May raise (a raise is judged by the caller)."""
    k = ev[0]
    if k == "symbol":
        n = ctx.symbol(ev[1], ev[2])
        return n, ("sym", ev[1], ev[2])
    if k == "constant":
        v = CONSTS[ev[1]]()
        like = nodes[ev[2]]
        n = ctx.constant(v, like)
        return n, ("const",) + value_term(v) + (terms[ev[2]],)
    if k == "op":
        kind, idx = ev[1], ev[2]
        ops = [nodes[i] for i in idx]
        tms = [terms[i] for i in idx]
        n = fa.Expr(ctx, kind, tuple(ops))
        return n, (kind,) + tuple(tms)
    if k == "opnum":
        kind, i, numname, side = ev[1], ev[2], ev[3], ev[4]
        v = NUMS[numname]
        a = nodes[i]
        n = fa.Expr(ctx, kind, (a, v) if side == "r" else (v, a))
        ct = ("const",) + value_term(v) + (terms[i],)
        return n, (kind, terms[i], ct) if side == "r" else (kind, ct, terms[i])
    raise KeyError(k)


def is_symbol_term(t):
    return t[0] == "sym"


def build(fa, hist):
    with quiet():
        ctx = fa.Context()
        nodes, terms, firsts = [], [], {}
        for ev in hist:
            n, t = apply_event(fa, ctx, nodes, terms, ev)
            nodes.append(n)
            terms.append(t)
            if t[0] == "const":
                v = CONSTS[ev[1]]() if ev[0] == "constant" else None
    return ctx, nodes, terms


def check_state(fa, part, hist):
    """rebuild and check the invariant on all pairs; returns (terms or None)."""
    case = {"history": [list(e) for e in hist]}
    try:
        ctx, nodes, terms = build(fa, hist)
    except Exception as e:
        kind = hist[-1][0] + ":" + str(hist[-1][1])
        add_violation(part, f"construction-raises:{type(e).__name__}:{kind}", f"history {hist}: {type(e).__name__}: {e}", case)
        return None
    n = len(nodes)
    j = n - 1
    for i in range(n - 1):
        same_obj = nodes[i] is nodes[j]
        same_term = terms[i] == terms[j]
        if same_obj and not same_term:
            a, b = terms[i], terms[j]
            cls = "other"
            if a[0] == "const" and b[0] == "const":
                if a[1] == b[1] and a[3:] == b[3:]:
                    cls = "constants-differing-only-in-sign-of-zero" if (_zero_bits(a[2]) and _zero_bits(b[2])) else "constants-same-type-different-bits"
                else:
                    cls = "constants-of-different-type-or-like"
            else:
                cls = "operation-over-aliased-constant" if "const" in str(a) else "distinct-terms"
            add_violation(part, f"false-sharing:{cls}", f"nodes {i} and {j} are the same object but denote {a} vs {b} (history {hist})", case)
        if same_term and not same_obj:
            a = terms[i]
            cls = "nan-constant" if "nan" in str(a) else ("named-constant" if a[0] == "const" and a[1] == "str" else a[0])
            add_violation(part, f"structurally-identical-but-distinct-objects:{cls}", f"nodes {i} and {j} both denote {a} but are different objects (history {hist})", case)
    return terms


def canon(hist, terms):
    """set of terms + first-registered member of every ==-class of constants."""
    first = {}
    for ev, t in zip(hist, terms):
        if ev[0] == "constant":
            v = CONSTS[ev[1]]()
            key = (eqclass(v)[:2], t[3])
            first.setdefault(key, t)
        elif ev[0] == "opnum":
            v = NUMS[ev[3]]
            ct = [x for x in t[1:] if isinstance(x, tuple) and x and x[0] == "const"][0]
            key = (eqclass(v)[:2], ct[3])
            first.setdefault(key, ct)
    return (frozenset(terms), tuple(sorted(map(repr, first.values()))))


def menu(family, terms):
    evs = []
    have = set(terms)
    n = len(terms)
    symidx = [i for i, t in enumerate(terms) if t[0] == "sym"]
    if family == "F1":
        for name, tn in SYMS:
            evs.append(("symbol", name, tn))
        for cname in CONSTS:
            for i in symidx:
                evs.append(("constant", cname, i))
        for i in range(n):
            for j in range(n):
                evs.append(("op", "add", (i, j)))
        boolidx = [i for i, t in enumerate(terms) if t[0] == "lt"]
        for c in boolidx:
            for i in range(n):
                for j in range(n):
                    evs.append(("op", "select", (c, i, j)))
        for i in range(n):
            for j in range(n):
                if (i, j) in ((0, 0), (0, 1), (1, 0)):
                    evs.append(("op", "lt", (i, j)))
    else:
        for name, tn in SYMS[:2]:
            evs.append(("symbol", name, tn))
        for cname in ("int0", "int1", "f0", "fneg0"):
            for i in symidx:
                evs.append(("constant", cname, i))
        for k in OPS1:
            for i in range(n):
                if k == "real" and terms[i][0] != "complex":
                    continue
                evs.append(("op", k, (i,)))
        for k in OPS2:
            for i in range(n):
                for j in range(n):
                    evs.append(("op", k, (i, j)))
        boolidx = [i for i, t in enumerate(terms) if t[0] == "lt"]
        for c in boolidx:
            for i in range(n):
                for j in range(n):
                    evs.append(("op", "select", (c, i, j)))
        for k in ("add", "multiply", "subtract"):
            for i in symidx:
                for nm in NUMS:
                    for side in ("l", "r"):
                        evs.append(("opnum", k, i, nm, side))
    return evs


# ------------------------------------------------------------------ family F3: like-forms, like-less literals, type spellings
# Histories: [prerequisite symbols / op nodes] ; constant or symbol A ; constant or symbol B  (every ordered pair of specs,
# optionally after a perturbing first request), on Contexts with three parameter sets.  Reference model of a constant:
# (value bits, normalised like) where the like of a like-less literal is the documented automatic symbol for the value's
# Python/NumPy type (or the default constant type), a type given as string / NumPy class is its canonical type name, and
# the documented like-normalisation maps negative(s) -> s and absolute(s) -> s for a real s (absolute of a complex symbol
# stays: it is real-typed while the symbol is complex).

F3_SYMS = [("x", "float32"), ("z", "complex64"), ("n", "int32"), ("n", "int64"), ("n", "np.int16"), ("n", "np.int64"), ("x", "float64"),
           ("s", "list[float32, float32]"), ("s", "list[float32, float64]"), ("s", "list[float]")]
F3_TYPES = ["float32", "np.float32", "float64", "int32", "np.int32", "int64", "np.int64", "np.int16", "complex64"]
CANON_TYPE = {"float32": "float32", "np.float32": "float32", "float64": "float64", "np.float64": "float64", "int32": "integer32", "np.int32": "integer32", "int64": "integer64", "np.int64": "integer64",
              "np.int16": "integer16", "complex64": "complex64", "float": "float", "complex": "complex",
              "list[float32, float32]": "list[float32, float32]", "list[float32, float64]": "list[float32, float64]", "list[float]": "list[float]"}
F3_VALUES = ["f0", "fneg0", "f1", "int1", "np32_0", "np32_neg0", "true", "f2", "c0", "np64_1"]
F3_CONFIGS = [{}, {"default_constant_type": "float32"}, {"enable_alt": True, "default_constant_type": "float32"}]


def _typeobj(t):
    return getattr(np, t[3:]) if t.startswith("np.") else t


def f3_specs(level):
    specs = [("sym", n, t) for n, t in F3_SYMS]
    vals = F3_VALUES if level >= 1 else F3_VALUES[:7]
    for v in vals:
        specs.append(("const", v, ("none",)))
        for t in F3_TYPES:
            specs.append(("const", v, ("type", t)))
        for n, t in F3_SYMS[:3] + F3_SYMS[6:7]:
            for form in ("sym", "absolute", "negative"):
                specs.append(("const", v, (form, n, t)))
    return specs


def f3_term(spec, cfg):
    if spec[0] == "sym":
        return ("sym", spec[1], CANON_TYPE[spec[2]])
    v = CONSTS[spec[1]]()
    like = spec[2]
    if like[0] == "none":
        if isinstance(v, (bool, np.bool_)):
            lt = ("auto", "boolean")
        elif cfg.get("default_constant_type"):
            lt = ("auto", "default", cfg["default_constant_type"])
        else:
            # the automatic like of a literal is the symbol _<kind>_value of the value's own type: the same symbol a type
            # given explicitly produces
            tn = type(v).__name__
            lt = ("autotype", {"float": "float", "int": "integer", "complex": "complex", "float32": "float32", "float64": "float64", "complex64": "complex64", "complex128": "complex128",
                               "int64": "integer64", "int32": "integer32", "longdouble": "float128", "clongdouble": "complex256"}.get(tn, tn))
    elif like[0] == "type":
        lt = ("autotype", CANON_TYPE[like[1]])
    else:
        form, n, t = like
        base = ("sym", n, CANON_TYPE[t])
        if form == "absolute" and CANON_TYPE[t].startswith("complex"):
            lt = ("absolute", base)
        else:
            lt = base
    return ("const",) + value_term(v) + (lt,)


def f3_build(fa, ctx, spec, cache):
    if spec[0] == "sym":
        return ctx.symbol(spec[1], _typeobj(spec[2]))
    v = CONSTS[spec[1]]()
    like = spec[2]
    if like[0] == "none":
        return ctx.constant(v)
    if like[0] == "type":
        return ctx.constant(v, _typeobj(like[1]))
    form, n, t = like
    key = ("symnode", n, t)
    if key not in cache:
        cache[key] = ctx.symbol(n, _typeobj(t))
    node = cache[key]
    if form != "sym":
        k2 = (form, n, t)
        if k2 not in cache:
            cache[k2] = fa.Expr(ctx, form, (node,))
        node = cache[k2]
    return ctx.constant(v, node)


def w_f3(task):
    fa = setup_repo_import()
    part = new_part()
    specs = f3_specs(task["level"])
    cfg = F3_CONFIGS[task["cfg"]]
    perturb = [None] + [specs[i] for i in task["perturb"]]
    nstates = 0
    for ia in range(task["lo"], len(specs), task["stride"]):
        A = specs[ia]
        for B in specs:
            if A[0] == "sym" and B[0] == "const" and B[2][0] in ("none", "type"):
                continue
            for P in perturb:
                hist = ([P] if P is not None else []) + [A, B]
                part["evaluations"] += 1
                nstates += 1
                case = {"kind": "f3", "cfg": task["cfg"], "history": [list(map(lambda q: list(q) if isinstance(q, tuple) else q, h)) for h in hist]}
                try:
                    with quiet():
                        ctx = fa.Context(**cfg)
                        cache = {}
                        nodes = [f3_build(fa, ctx, sp, cache) for sp in hist]
                except Exception as e:
                    bump(part, "f3_not_constructible_" + type(e).__name__)
                    continue
                terms = [f3_term(sp, cfg) for sp in hist]
                a, b = nodes[-2], nodes[-1]
                ta, tb = terms[-2], terms[-1]
                if ta != tb:
                    part["nontrivial"] += 1
                if (a is b) and ta != tb:
                    if ta[0] == "const" and tb[0] == "const":
                        if ta[1:3] != tb[1:3]:
                            cls = "constants-differing-only-in-sign-of-zero" if (ta[1] == tb[1] and _zero_bits(ta[2]) and _zero_bits(tb[2])) else "constants-of-different-value-or-type"
                        else:
                            cls = f"constants-with-different-likes:{ta[3][0]}-vs-{tb[3][0]}"
                    elif ta[0] == "sym" and tb[0] == "sym":
                        cls = "symbols-of-different-type"
                    else:
                        cls = "other"
                    add_violation(part, f"false-sharing:{cls}", f"Context({cfg}): {hist[-2]} and {hist[-1]} are the same object but denote {ta} vs {tb}" + (f" (after {P})" if P else ""), case)
                elif (a is not b) and ta == tb:
                    add_violation(part, f"structurally-identical-but-distinct-objects:{ta[0]}:{'like-less' if ta[0] == 'const' and ta[3][0] == 'auto' else 'typed'}", f"Context({cfg}): {hist[-2]} and {hist[-1]} both denote {ta} but are different objects" + (f" (after {P})" if P else ""), case)
    # two Python/NumPy literals in ONE operand list (they are converted to constants by the same call)
    if task["lo"] == 0:
        LITS = [("f0", 0.0), ("fneg0", -0.0), ("int1", 1), ("f1", 1.0), ("true", True), ("false", False), ("int0", 0), ("f2", 2.0), ("c2", 2 + 0j), ("np32_1", np.float32(1)), ("np64_1", np.float64(1)),
                ("c0", 0j), ("cneg0", complex(-0.0, 0.0))]
        for kind in ("list", "select", "add3"):
            for (na, a), (nb, b) in itertools.product(LITS, repeat=2):
                part["evaluations"] += 1
                nstates += 1
                case = {"kind": "f3-literals", "cfg": task["cfg"], "op": kind, "a": na, "b": nb}
                try:
                    with quiet():
                        ctx = fa.Context(**cfg)
                        x = ctx.symbol("x", "float32")
                        if kind == "list":
                            e = fa.Expr(ctx, "list", (x, a, b))
                            A, B = e.operands[1], e.operands[2]
                        elif kind == "select":
                            e = ctx.select(x < x, a, b)
                            A, B = e.operands[1], e.operands[2]
                        else:
                            e1, e2 = x + a, x + b  # two calls (control: must behave like the one-call forms)
                            A, B = e1.operands[1], e2.operands[1]
                except Exception as ex:
                    bump(part, "f3_literals_not_constructible_" + type(ex).__name__)
                    continue
                if not (getattr(A, "kind", None) == "constant" and getattr(B, "kind", None) == "constant"):
                    bump(part, "f3_literals_not_constants")
                    continue
                ta, tb = value_term(a), value_term(b)
                if ta != tb:
                    part["nontrivial"] += 1
                if (A is B) and ta != tb:
                    cls = "differing-only-in-sign-of-zero" if (ta[0] == tb[0] and _zero_bits(ta[1]) and _zero_bits(tb[1])) else "of-different-value-or-type"
                    add_violation(part, f"false-sharing:two-literals-in-one-operand-list:{cls}", f"Context({cfg}): {kind} with the literals {a!r} and {b!r}: both operands are the same constant object {A}", case)
                elif (A is not B) and ta == tb and not (isinstance(a, float) and a != a):
                    add_violation(part, "structurally-identical-but-distinct-objects:two-literals-in-one-operand-list", f"Context({cfg}): {kind} with the literals {a!r} and {b!r}: distinct constant objects", case)
    part["counters"]["f3_states"] = nstates
    part["samples"].append({"family": "F3", "cfg": str(cfg), "specs": len(specs)})
    return part



def w_expand(task):
    """expand a slice of the frontier: for every history, every enabled event."""
    fa = setup_repo_import()
    part = new_part()
    out = []
    for hist in task["hists"]:
        hist = tuple(tuple(tuple(x) if isinstance(x, list) else x for x in e) for e in hist)
        try:
            _, _, terms = build(fa, hist)
        except Exception:
            continue
        for ev in menu(task["family"], terms):
            h2 = hist + (ev,)
            part["evaluations"] += 1
            t2 = check_state(fa, part, h2)
            if t2 is None:
                continue
            nd = len(set(t2))
            if nd > task["max_terms"]:
                continue
            out.append((h2, repr(canon(h2, t2)), nd))
    part["counters"]["children"] = out
    return part


def run(run):
    thorough = run.tier == "thorough"
    fa = setup_repo_import()
    total_states = total_trans = 0
    maxdepth = 0
    sample_hists = []
    for family, max_terms, max_len in (("F1", 3 if not thorough else 4, 4 if not thorough else 5), ("F2", 4 if not thorough else 5, 5 if not thorough else 6)):
        seen = set()
        frontier = [()]
        depth = 0
        while frontier and depth < max_len:
            nsh = min(len(frontier), 64)
            tasks = [dict(family=family, hists=[list(map(list, h)) for h in frontier[i::nsh]], max_terms=max_terms) for i in range(nsh)]
            parts = run.map(MOD, "w_expand", tasks)
            nxt = []
            for p in parts:
                for h2, c, nd in p["counters"].get("children", []):
                    total_trans += 1
                    if c not in seen:
                        seen.add(c)
                        nxt.append(h2)
            run.sets.pop("children", None)
            depth += 1
            frontier = nxt
            if frontier and len(sample_hists) < 4:
                sample_hists.append({"family": family, "history": [list(e) for e in frontier[len(frontier) // 2]]})
            # cap the frontier deterministically if it explodes; report the cap
            cap = 60000 if thorough else 12000
            if len(frontier) > cap:
                run.counters[f"frontier_capped_{family}_depth{depth}"] = len(frontier)
                frontier = frontier[:: len(frontier) // cap + 1]
        total_states += len(seen)
        maxdepth = max(maxdepth, depth)
        run.counters[f"states_{family}"] = len(seen)
    # family F3
    specs = f3_specs(1 if thorough else 0)
    run.counters["f3_specs"] = len(specs)
    pidx = [specs.index(("const", "f0", ("none",))), specs.index(("const", "fneg0", ("sym", "x", "float32"))), specs.index(("sym", "n", "int64"))] if thorough else [specs.index(("const", "f0", ("none",)))]
    run.map(MOD, "w_f3", [dict(level=1 if thorough else 0, cfg=c, lo=lo, stride=16, perturb=pidx) for c in range(len(F3_CONFIGS)) for lo in range(16)])
    f3s = int(run.counters.pop("f3_states", 0))
    total_states += f3s
    total_trans += 3 * f3s
    run.nontrivial = total_states
    run.samples = sample_hists + run.samples
    run.coverage_extra["states"] = int(total_states)
    run.coverage_extra["transitions"] = int(total_trans)
    run.coverage_extra["traces_validated_against_impl"] = int(total_trans)
    run.coverage_extra["max_depth"] = int(maxdepth)
    run.rule = (
        "level-synchronous BFS over construction histories of one Context: family F1 (6 typed symbols, 21 constant values incl. 0/0.0/-0.0/True/NaN shared+fresh/inf/"
        "named/NumPy scalars/complex zeros, ops add/lt/select) and F2 (leaves x,y,0,1; ops negative, absolute, real, add, subtract, multiply, lt, complex, list, select, "
        "Python-number operands +-0.0, 1, 2.0); bounded by distinct terms and history length; each transition rebuilds the history on a fresh Context and checks "
        "`is` <=> structural-term equality between the new node and every earlier node; family F3: every ordered pair of symbol/constant specs (like-less literals, "
        "types given as strings / NumPy classes, likes that are symbols or negative/absolute of symbols incl. a complex one, integer widths) on three Context parameter sets, "
        "alone and after a perturbing first request"
    )
    run.assumptions = ["like-expressions of constants are symbols (for which the package's like-normalisation is the identity)", "named constants are compared under the documented spelling normalisation (inf -> posinf)"]
    run.exhaustive = not any(k.startswith("frontier_capped") for k in run.counters)


def replay(case):
    fa = setup_repo_import()
    part = new_part()
    if case.get("kind") == "f3-literals":
        p2 = w_f3(dict(level=0, cfg=case["cfg"], lo=0, stride=10 ** 9, perturb=[]))
        return [(v["sig"], v["msg"]) for v in p2["violations"] if v["case"].get("kind") == "f3-literals" and v["case"]["a"] == case["a"] and v["case"]["b"] == case["b"] and v["case"]["op"] == case["op"]]
    if case.get("kind") == "f3":
        def tup(q):
            return tuple(tup(x) for x in q) if isinstance(q, list) else q

        hist = [tup(h) for h in case["history"]]
        specs = f3_specs(1)
        # re-run exactly this pair through the worker logic
        cfg = F3_CONFIGS[case["cfg"]]
        with quiet():
            ctx = fa.Context(**cfg)
            cache = {}
            nodes = [f3_build(fa, ctx, sp, cache) for sp in hist]
        terms = [f3_term(sp, cfg) for sp in hist]
        a, b, ta, tb = nodes[-2], nodes[-1], terms[-2], terms[-1]
        if (a is b) != (ta == tb):
            return [("f3:identity-differs-from-structural-equality", f"{hist}: same object={a is b}, same term={ta == tb}")]
        return []
    hist = tuple(tuple(tuple(x) if isinstance(x, list) else x for x in e) for e in case["history"])
    for n in range(1, len(hist) + 1):
        check_state(fa, part, hist[:n])
    return [(v["sig"], v["msg"]) for v in part["violations"]]
