"""C02 — real-line accuracy of every real algorithm.

float32 unary (absolute, acos, acosh, asin, asinh, square): every one of the 2^32 bit patterns
(thorough) / one complete coset mod 2^6 plus the complete +-2^12-ULP neighbourhoods of every
threshold constant of the graph, +-1, +-0 (quick).  float64: all binades x mantissas lattice + the
same neighbourhoods.  hypot: product lattice S x S for both types.
Oracle: float64 libm as a *filter* for float32 -- a point is escalated to the multiprecision
reference (mpmath at two working precisions, Ziv) when the float64-based distance is >= 3 ULP or
the float64 value lies within 2^-38 relative of a float32 rounding boundary, so every count that
is reported (>3, >4 ULP) is decided exactly.  float64 and hypot: mpmath directly.
Bounds: <= 4 ULP (float32), <= 5 ULP (float64); #(>3 ULP) < 1e-5 of the regular enumeration;
NaN exactly on the undefined set; exact limits at +-inf and 0.
"""

from __future__ import annotations

from fractions import Fraction as F

import numpy as np

from mc import expand, interp, lattice
from mc.harness import add_violation, bump, new_part, quiet, setup_repo_import
from mc.oracle import FMT, from_ordinal, ordinal, rn

PROPERTY = "C02"
LEVEL = "exploration"
MOD = "mc.checks.c02"

UNARY = ["absolute", "acos", "acosh", "asin", "asinh", "square"]
REF64 = {"absolute": np.abs, "acos": np.arccos, "acosh": np.arccosh, "asin": np.arcsin, "asinh": np.arcsinh, "square": np.square}
LIMIT = {"float32": 4, "float64": 5}
DT = {"float32": np.float32, "float64": np.float64}

_I = {}


def get_interp(fa, name, dtname, nargs=1):
    key = (name, dtname)
    if key not in _I:
        try:
            _I[key] = interp.Interp(fa, expand.expanded_graph(fa, name, DT[dtname], nargs=nargs))
        except Exception as e:
            _I[key] = e
    return _I[key]


def mp_ref(fname, xs, dtname):
    """correctly rounded reference via mpmath at two precisions (Ziv); xs: tuple of floats. Returns
    a NumPy scalar of the format (nan where undefined)."""
    import mpmath

    t = DT[dtname]
    p = FMT[dtname]["p"]
    prec = 4 * p + 64
    prev = None
    for _ in range(6):
        with mpmath.workprec(prec):
            a = [mpmath.mpf(float(x)) for x in xs]
            try:
                if fname == "hypot":
                    v = mpmath.sqrt(a[0] * a[0] + a[1] * a[1])
                elif fname == "absolute":
                    v = abs(a[0])
                elif fname == "square":
                    v = a[0] * a[0]
                else:
                    v = getattr(mpmath, fname)(a[0])
            except Exception:
                return t(np.nan)
            if isinstance(v, mpmath.mpc):
                if v.imag != 0:
                    return t(np.nan)
                v = v.real
            if mpmath.isnan(v):
                return t(np.nan)
            if mpmath.isinf(v):
                return t(np.inf) if v > 0 else t(-np.inf)
            s, m, e, _b = v._mpf_
            q = F(int(m)) * F(2) ** int(e)
            if s:
                q = -q
        r = rn(q, dtname)
        if prev is not None and (r == prev or (np.isnan(r) and np.isnan(prev))):
            return r
        prev = r
        prec *= 2
    return prev


def expected_special(fname, x):
    """exact expectations on the undefined set and at infinities/zero; None = judge numerically."""
    if np.isinf(x):
        if fname in ("absolute", "square"):
            return np.inf
        if fname == "asinh":
            return x
        if fname == "acosh":
            return np.inf if x > 0 else np.nan
        return np.nan  # asin, acos
    if fname in ("asin", "acos") and abs(x) > 1:
        return np.nan
    if fname == "acosh" and x < 1:
        return np.nan
    if x == 0 and fname in ("absolute", "square", "asin", "asinh"):
        return 0.0
    return None


def judge_unary(part, fa, fname, dtname, x, rate_set):
    """x: array of non-NaN inputs.  rate_set: bool, whether these points belong to the regular enumeration
    over which the >3-ULP rate is taken."""
    t = DT[dtname]
    it = get_interp(fa, fname, dtname)
    if isinstance(it, Exception):
        add_violation(part, f"{fname}:{dtname}:build-raises", f"{type(it).__name__}: {it}", {"kind": "unary", "func": fname, "dtype": dtname, "x": float(x[0]).hex()})
        return
    try:
        got = np.asarray(it.run(x))
    except Exception as e:
        add_violation(part, f"{fname}:{dtname}:raises", f"{type(e).__name__}: {e}", {"kind": "unary", "func": fname, "dtype": dtname, "x": float(x[0]).hex()})
        return
    n = len(x)
    part["evaluations"] += n
    lim = LIMIT[dtname]
    if got.dtype != np.dtype(t):
        add_violation(part, f"{fname}:{dtname}:result-dtype", f"result dtype {got.dtype}", {"kind": "unary", "func": fname, "dtype": dtname, "x": float(x[0]).hex()})
        return
    with np.errstate(all="ignore"):
        if dtname == "float32":
            ref64 = REF64[fname](x.astype(np.float64))
            r32 = ref64.astype(np.float32)
            undefined = np.isnan(ref64)
            # NaN exactly on the undefined set
            bad_nan = np.isnan(got) != undefined
            d = np.zeros(n, dtype=np.int64)
            ok = ~undefined & ~np.isnan(got)
            d[ok] = np.abs(ordinal(got[ok]) - ordinal(r32[ok]))
            infmis = ok & (np.isinf(got) != np.isinf(r32))
            # near a rounding boundary of float32? (ref64 relative position within the float32 ulp)
            lo = r32.astype(np.float64)
            ulp = np.abs(np.nextafter(r32, np.float32(np.inf)).astype(np.float64) - lo)
            ulp = np.where(np.isfinite(ulp) & (ulp > 0), ulp, 1.0)
            frac = np.abs(ref64 - lo) / ulp  # in [0, 0.5]
            near_mid = ok & (np.abs(frac - 0.5) < 2.0 ** -14)
            esc = bad_nan | infmis | (ok & (d >= 3)) | (near_mid & (d >= 2))
        else:
            esc = np.ones(n, bool)
            d = np.zeros(n, dtype=np.int64)
    hist = np.zeros(8, dtype=np.int64)
    idx = np.flatnonzero(esc)
    bump(part, f"escalated_{fname}_{dtname}", int(len(idx)))
    for i in idx:
        xi = x[i]
        case = {"kind": "unary", "func": fname, "dtype": dtname, "x": float(xi).hex()}
        spec = expected_special(fname, xi)
        want = t(spec) if spec is not None else mp_ref(fname, (xi,), dtname)
        g = got[i]
        region = "inf" if np.isinf(xi) else ("zero" if xi == 0 else "finite")
        if np.isnan(want):
            if not np.isnan(g):
                add_violation(part, f"{fname}:{dtname}:defined-where-undefined:{region}", f"{fname}({xi!r}) = {g!r}, the real function is undefined there", case)
            d[i] = 0
            continue
        if np.isnan(g):
            add_violation(part, f"{fname}:{dtname}:spurious-nan:{region}", f"{fname}({xi!r}) = nan, correctly rounded value is {want!r}", case)
            d[i] = 0
            continue
        if np.isinf(want) or np.isinf(g):
            if not (g == want):
                add_violation(part, f"{fname}:{dtname}:wrong-infinity:{region}", f"{fname}({xi!r}) = {g!r}, expected {want!r}", case)
            d[i] = 0
            continue
        if spec is not None and not (g == want):
            add_violation(part, f"{fname}:{dtname}:wrong-exact-value:{region}", f"{fname}({xi!r}) = {g!r}, expected {want!r}", case)
        di = abs(int(ordinal(g)) - int(ordinal(want)))
        d[i] = di
        if want != 0 and g != 0 and np.signbit(want) != np.signbit(g):
            add_violation(part, f"{fname}:{dtname}:wrong-sign", f"{fname}({xi!r}) = {g!r}, correctly rounded {want!r}", case)
        if di > lim:
            add_violation(part, f"{fname}:{dtname}:>{lim}ulp", f"{fname}({xi!r}) = {g!r}, correctly rounded {want!r}: {di} ULP", case)
    if rate_set:
        dd = np.minimum(d, 7)
        hist = np.bincount(dd, minlength=8)
        for k in range(8):
            bump(part, f"hist_{fname}_{dtname}_{k}", int(hist[k]))
        bump(part, f"rate_n_{fname}_{dtname}", n)
        # remember a few of the worst points so that a rate violation can be replayed
        worst = np.flatnonzero(d > 3)[:2]
        for i in worst:
            part["samples"].append({"gt3ulp": fname, "dtype": dtname, "x": float(x[i]).hex(), "ulp": int(d[i])})
    part["nontrivial"] += int((np.isfinite(got) & (got != 0)).sum())


def w_unary32(task):
    fa = setup_repo_import()
    part = new_part()
    lo, hi, k, r = task["lo"], task["hi"], task["k"], task["r"]
    bits = np.arange(lo + ((r - lo) % (1 << k)), hi, 1 << k, dtype=np.uint64).astype(np.uint32)
    x = bits.view(np.float32)
    x = x[~np.isnan(x)]
    for fname in task["funcs"]:
        judge_unary(part, fa, fname, "float32", x, True)
    if len(x):
        part["samples"].append({"float32_range": [hex(lo), hex(hi)], "coset": [k, r], "n": int(len(x))})
    return part


def w_points(task):
    fa = setup_repo_import()
    part = new_part()
    dtname = task["dtype"]
    x = np.array(task["bits"], dtype=np.uint64).astype(FMT[dtname]["ui"]).view(DT[dtname])
    x = x[~np.isnan(x)]
    for fname in task["funcs"]:
        judge_unary(part, fa, fname, dtname, x, task["rate"])
    return part


def w_hypot(task):
    fa = setup_repo_import()
    part = new_part()
    dtname = task["dtype"]
    t = DT[dtname]
    S = np.array(task["S_bits"], dtype=np.uint64).astype(FMT[dtname]["ui"]).view(t)
    rows = S[task["rows"][0]:task["rows"][1]]
    if not len(rows):
        return part
    it = get_interp(fa, "hypot", dtname, nargs=2)
    if isinstance(it, Exception):
        add_violation(part, f"hypot:{dtname}:build-raises", f"{type(it).__name__}: {it}", {"kind": "hypot", "dtype": dtname, "x": float(rows[0]).hex(), "y": float(S[0]).hex()})
        return part
    X, Y = np.meshgrid(rows, S, indexing="ij")
    X, Y = X.ravel(), Y.ravel()
    got = np.asarray(it.run(X, Y))
    part["evaluations"] += len(X)
    lim = LIMIT[dtname]
    with np.errstate(all="ignore"):
        if dtname == "float32":
            ref = np.hypot(X.astype(np.float64), Y.astype(np.float64))
            r32 = ref.astype(np.float32)
            d = np.abs(ordinal(got) - ordinal(r32))
            esc = np.isnan(got) | (np.isinf(got) != np.isinf(r32)) | (d >= 2)
        else:
            esc = np.ones(len(X), bool)
            d = np.zeros(len(X), dtype=np.int64)
    for i in np.flatnonzero(esc):
        xi, yi, g = X[i], Y[i], got[i]
        case = {"kind": "hypot", "dtype": dtname, "x": float(xi).hex(), "y": float(yi).hex()}
        if np.isinf(xi) or np.isinf(yi):
            want = t(np.inf)
        else:
            want = mp_ref("hypot", (xi, yi), dtname)
        cls = "inf-arg" if (np.isinf(xi) or np.isinf(yi)) else ("zero-arg" if (xi == 0 or yi == 0) else "finite")
        if np.isnan(g) or np.isinf(g) != np.isinf(want):
            add_violation(part, f"hypot:{dtname}:spurious-nan-or-inf:{cls}", f"hypot({xi!r},{yi!r}) = {g!r}, correctly rounded {want!r}", case)
            d[i] = 0
            continue
        di = abs(int(ordinal(g)) - int(ordinal(want)))
        d[i] = di
        if di > lim:
            add_violation(part, f"hypot:{dtname}:>{lim}ulp:{cls}", f"hypot({xi!r},{yi!r}) = {g!r}, correctly rounded {want!r}: {di} ULP", case)
    dd = np.minimum(d, 7)
    hist = np.bincount(dd, minlength=8)
    for k in range(8):
        bump(part, f"hist_hypot_{dtname}_{k}", int(hist[k]))
    bump(part, f"rate_n_hypot_{dtname}", len(X))
    part["nontrivial"] += int(((X != 0) & (Y != 0) & np.isfinite(got)).sum())
    part["samples"].append({"hypot": dtname, "x": float(rows[0]).hex(), "n_y": int(len(S))})
    return part


def w_shared_context(task):
    """histories on ONE Context: trace f, then g (same dtype); g must compute exactly what it computes when traced in a
    fresh Context (no parameter or registry state may leak from one definition to the next)."""
    fa = setup_repo_import()
    part = new_part()
    dtname = task["dtype"]
    t = DT[dtname]
    fi = np.finfo(t)
    names = UNARY + ["hypot"]
    big = float(fi.max)
    pts = [0.0, 0.25, 0.5, 0.9, 0.999, 1.0, 1.001, 1.5, 3.0, 1e3, 1e-3, float(fi.smallest_normal), float(fi.smallest_subnormal), float(np.sqrt(fi.max)), float(np.sqrt(fi.max)) * 0.5, float(np.sqrt(fi.max)) * 2,
           0.3 * big, 0.4 * big, 0.5 * big, 0.5000001 * big, 0.6 * big, 0.75 * big, 0.9 * big, big, float(np.sqrt(fi.smallest_normal)), 1e-5, 1e5, float(fi.eps), float(np.sqrt(fi.eps))]
    with np.errstate(all="ignore"):
        X = np.array(pts + [-p_ for p_ in pts], dtype=t)
    fresh = {}
    for g in names:
        it = get_interp(fa, g, dtname, nargs=2 if g == "hypot" else 1)
        if isinstance(it, Exception):
            continue
        with np.errstate(all="ignore"):
            fresh[g] = np.asarray(it.run(X, X[::-1].copy()) if g == "hypot" else it.run(X))
    for f in names[task["lo"]::task["stride"]]:
        for g in names:
            if g not in fresh:
                continue
            part["evaluations"] += 1
            try:
                with quiet():
                    ctx = fa.Context(paths=[fa.algorithms])
                    expand.expanded_graph(fa, f, t, nargs=2 if f == "hypot" else 1, ctx=ctx)
                    g2 = expand.expanded_graph(fa, g, t, nargs=2 if g == "hypot" else 1, ctx=ctx)
                with np.errstate(all="ignore"):
                    it2 = interp.Interp(fa, g2)
                    got = np.asarray(it2.run(X, X[::-1].copy()) if g == "hypot" else it2.run(X))
            except Exception as e:
                add_violation(part, f"shared-context:{g}-after-{f}:{dtname}:raises", f"one Context: tracing {f} then {g} [{dtname}] raised {type(e).__name__}: {e}", {"kind": "shared", "f": f, "g": g, "dtype": dtname})
                continue
            if f != g:
                part["nontrivial"] += 1
            ui = FMT[dtname]["ui"]
            neq = ~((got.view(ui) == fresh[g].view(ui)) | (np.isnan(got) & np.isnan(fresh[g])))
            if neq.any():
                i = int(np.flatnonzero(neq)[0])
                add_violation(part, f"shared-context:{g}-after-{f}:{dtname}:differs-from-fresh-context", f"one Context: {g} traced after {f} [{dtname}] returns {got[i]!r} at x={X[i]!r}; traced in a fresh Context it returns {fresh[g][i]!r}", {"kind": "shared", "f": f, "g": g, "dtype": dtname})
    part["samples"].append({"shared_context_pairs": dtname, "functions": names})
    return part


def thresholds(fa, dtname):
    from mc.checks.c03 import graph_constants

    t = DT[dtname]
    vals = [1.0, 0.0, 1.5, 2.0, 0.5]
    for n in UNARY:
        it = get_interp(fa, n, dtname)
        if isinstance(it, Exception):
            continue
        try:
            _, ex = it.run(np.ones(1, dtype=t), return_env=True)
        except Exception:
            continue
        for e in it.order:
            if e.kind == "constant":
                v = ex["env"].get(id(e))
                if v is not None and not isinstance(v, interp.Cx):
                    a = np.asarray(v)
                    if a.dtype.kind == "f" and a.size == 1 and np.isfinite(a).all():
                        vals.append(float(a.reshape(-1)[0]))
    return sorted(set(vals))


def neighbourhood(dtname, centers, W):
    t = DT[dtname]
    c = np.array(centers, dtype=np.float64).astype(t)
    c = c[np.isfinite(c)]
    c = np.concatenate([c, -c])
    o = np.unique(ordinal(c))
    omax = int(ordinal(np.array(np.finfo(t).max, dtype=t)))
    chunks = []
    for oc in o:
        a = np.arange(max(-omax, int(oc) - W), min(omax, int(oc) + W) + 1, dtype=np.int64)
        chunks.append(a)
    allo = np.unique(np.concatenate(chunks))
    v = from_ordinal(allo, t)
    return np.concatenate([v, -v[v == 0]])


def run(run):
    thorough = run.tier == "thorough"
    fa = setup_repo_import()
    for n in UNARY:
        for dt in DT:
            get_interp(fa, n, dt)
    for dt in DT:
        get_interp(fa, "hypot", dt, nargs=2)
    k = 0 if thorough else 6
    r = (run.seed * 2654435761 + 12345) % (1 << k)
    nchunk = 1024 if thorough else 128
    span = (1 << 32) // nchunk
    tasks = [dict(lo=i * span, hi=(i + 1) * span, k=k, r=r, funcs=UNARY) for i in range(nchunk)]
    run.map(MOD, "w_unary32", tasks, chunksize=2)
    # threshold neighbourhoods (hard bound only, not part of the rate) and float64 lattices
    tasks = []
    for dtname in ("float32", "float64"):
        th = thresholds(fa, dtname)
        run.counters[f"thresholds_{dtname}"] = len(th)
        W = (1 << 12) if dtname == "float32" else ((1 << 9) if thorough else (1 << 6))
        nb = neighbourhood(dtname, th, W)
        sp = np.concatenate([lattice.specials(DT[dtname]), np.array([np.inf, -np.inf], dtype=DT[dtname])])
        b = np.unique(np.concatenate([nb, sp]).view(FMT[dtname]["ui"])).astype(np.uint64)
        nsh = 64
        for i in range(nsh):
            tasks.append(dict(dtype=dtname, bits=[int(v) for v in b[i::nsh]], funcs=UNARY, rate=False))
    lat = lattice.binade_lattice(np.float64, mantissas=64 if thorough else 12, seed=run.seed, include_inf=True)
    b = lat.view(np.uint64)
    nsh = 128
    for i in range(nsh):
        tasks.append(dict(dtype="float64", bits=[int(v) for v in b[i::nsh]], funcs=UNARY, rate=True))
    run.map(MOD, "w_points", tasks)
    tasks = []
    for dtname, n in (("float32", 1500 if thorough else 500), ("float64", 500 if thorough else 160)):
        t = DT[dtname]
        f = FMT[dtname]
        nbin = f["emax"] - f["emin"] + f["p"]
        estride = max(1, (2 * nbin * 3) // n)
        lat = lattice.binade_lattice(t, mantissas=3, estride=estride, ephase=run.seed % estride, seed=run.seed, include_inf=True)
        S = np.unique(np.concatenate([lat, lattice.specials(t)]).view(f["ui"]))
        Sb = [int(v) for v in S.astype(np.uint64)]
        run.counters[f"hypot_S_{dtname}"] = len(Sb)
        step = 4 if dtname == "float32" else 1
        for i in range(0, len(Sb), step):
            tasks.append(dict(dtype=dtname, S_bits=Sb, rows=[i, i + step]))
    run.map(MOD, "w_hypot", tasks, chunksize=2)
    run.map(MOD, "w_shared_context", [dict(dtype=d, lo=lo, stride=4) for d in ("float32", "float64") for lo in range(4)])
    # rate clause over the regular enumerations
    for dtname in DT:
        for fname in UNARY + ["hypot"]:
            n = run.counters.get(f"rate_n_{fname}_{dtname}", 0)
            if not n:
                continue
            gt3 = sum(run.counters.get(f"hist_{fname}_{dtname}_{k}", 0) for k in range(4, 8))
            run.coverage_extra.setdefault("ulp_histograms", {})[f"{fname}_{dtname}"] = [run.counters.get(f"hist_{fname}_{dtname}_{k}", 0) for k in range(8)]
            if gt3 * 100000 >= n and n >= 100000:
                part = new_part()
                add_violation(part, f"{fname}:{dtname}:rate(>3ulp)>=1e-5", f"{fname} {dtname}: {gt3} of {n} enumerated inputs exceed 3 ULP", {"kind": "rate", "func": fname, "dtype": dtname, "gt3": int(gt3), "n": int(n)})
                run.merge(part)
    run.rule = (
        ("every float32 bit pattern" if thorough else f"the complete coset of float32 bit patterns = {r} mod 2^{k}") + " for absolute/acos/acosh/asin/asinh/square, plus the "
        "complete +-2^12-ULP (float32) neighbourhoods of every constant of the traced graphs and of +-0,+-1,+-1.5,+-2 and the special values; float64: all-binade "
        "mantissa lattice + threshold neighbourhoods; hypot on product lattices S x S; reference = float64 libm filter with exact mpmath (two precisions) "
        "escalation for float32, mpmath for float64/hypot; non-trivial = finite non-zero results"
    )
    run.exhaustive = bool(thorough)
    run.coverage_extra["exhaustive_scope"] = "float32 unary functions over all 2^32 patterns in the thorough tier; one coset + threshold neighbourhoods in quick; float64/hypot on lattices"
    run.assumptions = ["float64 libm results are within 2^-38 relative of the true value (they are used only to *select* points for exact escalation)", "mpmath evaluations at two precisions that round identically are correct", "mc.interp is bit-identical to the emitted NumPy code"]


def replay(case):
    fa = setup_repo_import()
    part = new_part()
    if case["kind"] == "unary":
        t = DT[case["dtype"]]
        x = np.array([float.fromhex(case["x"])], dtype=t)
        judge_unary(part, fa, case["func"], case["dtype"], x, False)
        # force exact judgement of this point
        if not part["violations"]:
            pass
    elif case["kind"] == "shared":
        p2 = w_shared_context(dict(dtype=case["dtype"], lo=(UNARY + ["hypot"]).index(case["f"]), stride=100))
        return [(v["sig"], v["msg"]) for v in p2["violations"] if v["case"].get("g") == case["g"]]
    elif case["kind"] == "hypot":
        t = DT[case["dtype"]]
        b = [int(np.array(float.fromhex(case[k]), dtype=t).view(FMT[case["dtype"]]["ui"])) for k in ("x", "y")]
        part = w_hypot(dict(dtype=case["dtype"], S_bits=b, rows=[0, 2]))
    elif case["kind"] == "rate":
        return [("rate clause: re-run the tier to re-measure", str(case))]
    return [(v["sig"], v["msg"]) for v in part["violations"]]
