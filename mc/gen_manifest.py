"""Regenerates /verif/MANIFEST.json from the table below (run: /venv/bin/python -m mc.gen_manifest)."""

import json
import os

VERIF = os.path.dirname(os.path.dirname(os.path.abspath(__file__)))

ALL = [f"C{i:02d}" for i in range(1, 20)]

# id -> (category, technique, level text, level note, design ref)
CHECKS = {
    "C16": (
        "exploration",
        "bounded exhaustive enumeration of (scheme, flags, degree, coefficient vector, point) configurations against the Fraction definition",
        "Every (implementation x scheme x reverse x degree) configuration with generic prime-ratio coefficients, every coefficient "
        "vector of length <= 5 (6 thorough) over {0,1,-1,2,1/2}, every Laurent offset, and all (P,D) division pairs are evaluated "
        "on the real code in exact rational arithmetic and compared with the definition; a finite space enumerated completely, "
        "no sampling. Exact algebra has no tolerance, so a single disagreement decides.",
        "Trusts Python int/Fraction. Polynomials outside the enumerated degree/alphabet bounds are covered only through genericity of the coefficients.",
        "DESIGN.md §2 C16",
    ),
}

NOT_YET = "check not built yet (construction order in DESIGN.md §7); no claim is made until its quick tier is green and has caught a seeded change"


def main():
    checks = []
    for pid in ALL:
        if pid not in CHECKS:
            continue
        cat, tech, text, note, ref = CHECKS[pid]
        checks.append(
            {
                "property_id": pid,
                "quick_cmd": f"./check {pid} --tier quick",
                "thorough_cmd": f"./check {pid} --tier thorough",
                "evidence_file": f"/verif/evidence/{pid}.json",
                "replay_cmd_template": f"./check {pid} --replay {{path}}",
                "engine": "mc",
                "level_claimed": {"category": cat, "text": text, "design_ref": ref},
                "level_note": note,
                "technique": tech,
            }
        )
    man = {
        "version": 1,
        "setup_cmd": "/venv/bin/python -m compileall -q mc && /venv/bin/python -c \"import sys; sys.path.insert(0,'/repo'); import functional_algorithms\" >/dev/null 2>&1; true",
        "hooks": {
            "guard": "FA_VERIF",
            "enable": "no hooks are needed: every observation point is a public call result, emitted text, object identity or the MXCSR register read through the harness's own stub",
            "baseline_off_cmd": "cd /repo && /venv/bin/python -m pytest -ra -q -p no:cacheprovider --timeout=900 --continue-on-collection-errors",
            "source_commits": [],
            "add_only": True,
        },
        "engines": [
            {
                "name": "mc",
                "path": "/verif/mc",
                "serves_properties": sorted(CHECKS),
                "kind_free_text": "hand-written explicit enumeration / explicit-state explorer in Python driving the real functional_algorithms code (bounded exhaustive input, program and history enumeration with exact or independent reference models)",
            }
        ],
        "checks": checks,
        "notes": "Run ./check <ID> --tier quick|thorough [--seed N] [--replay FILE]; FA_REPO overrides the tree under test (default /repo). Known findings: /verif/known_findings.json.",
        "not_applicable": [{"property_id": p, "reason": NOT_YET} for p in ALL if p not in CHECKS],
    }
    with open(os.path.join(VERIF, "MANIFEST.json"), "w") as f:
        json.dump(man, f, indent=1)
        f.write("\n")


if __name__ == "__main__":
    main()
