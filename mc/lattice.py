"""E1 — value alphabets. Everything here is deterministic; `seed` only selects which coset /
which filler mantissas of a regular lattice is enumerated (the selection is then enumerated
completely)."""

from __future__ import annotations

import numpy as np

from mc.oracle import FMT, fmt_of


def mantissa_patterns(dtype, n=64, seed=0):
    """n distinct (p-1)-bit fraction-field patterns: structural ones first, then a seeded
    Weyl sequence (golden-ratio stride) as filler."""
    f = fmt_of(dtype)
    w = f["p"] - 1
    full = (1 << w) - 1
    pats = [0, 1, 2, 3, full, full - 1, full - 2, 1 << (w - 1), (1 << (w - 1)) + 1, (1 << (w - 1)) - 1,
            (1 << (w - 2)), 3 << (w - 2), int("01" * 32, 2) & full, int("10" * 32, 2) & full,
            int(0.41421356237309515 * (1 << w)), int(0.6180339887498949 * (1 << w)),
            1 << (w // 2), (1 << (w // 2)) - 1, (1 << (w // 2)) + 1, full ^ (1 << (w // 2))]
    # half-width significands 1 + 2**-s, (2**s - 1) left aligned, 1 + 2**-s + 2**-(s+1): the shapes
    # on which splitters / Dekker products are tight
    for s_ in sorted({(w + 1) // 2 - 1, (w + 1) // 2, (w + 1) // 2 + 1, (w + 2) // 2 + 1}):
        if 0 < s_ < w:
            pats += [1 << (w - s_), ((1 << s_) - 1) << (w - s_), (3 << (w - s_ - 1)) if s_ + 1 <= w else 0, (1 << (w - s_)) | 1]
    s0 = (w + 2) // 2  # ceil(p / 2)
    pats = [0, 1 << (w - s0), full, 1, (1 << (w - s0)) | 1, ((1 << s0) - 1) << (w - s0), 1 << (w - 1)] + pats
    out = []
    for p_ in pats:
        if p_ not in out and 0 <= p_ <= full:
            out.append(p_)
    stride = int(0.6180339887498949 * (1 << w)) | 1
    k = (seed * 7919 + 1) % (1 << w)
    while len(out) < min(n, full + 1):
        k = (k + stride) & full
        if k not in out:
            out.append(k)
    return out[:n]


def binade_lattice(dtype, mantissas=64, estride=1, ephase=0, seed=0, signs=(0, 1), include_inf=False, subnormals=True):
    """All exponent fields (every subnormal binade separately) x mantissa patterns x signs."""
    f = fmt_of(dtype)
    p, nb = f["p"], f["bits"]
    w = p - 1
    ebits = nb - p
    ms = mantissa_patterns(dtype, mantissas, seed)
    bits = []
    # subnormal binades: leading bit position j = 0..w-1, lower bits from the pattern
    if subnormals:
        for j in range(w):
            for m in ms:
                bits.append((1 << j) | (m & ((1 << j) - 1)))
    for e in range(1, (1 << ebits) - 1):
        if (e - ephase) % estride:
            if e not in (1, 2, (1 << ebits) - 2, (1 << ebits) - 3, (1 << (ebits - 1)) - 1, (1 << (ebits - 1)), (1 << (ebits - 1)) - 2):
                continue
        for m in ms:
            bits.append((e << w) | m)
    bits = sorted(set(bits))
    arr = np.array(bits, dtype=f["ui"])
    out = []
    for s in signs:
        out.append(arr | (f["ui"](s) << f["ui"](nb - 1)))
    specials = [0, 1 << (nb - 1)]
    if include_inf:
        inf = ((1 << ebits) - 1) << w
        specials += [inf, inf | (1 << (nb - 1))]
    out.append(np.array(specials, dtype=f["ui"]))
    return np.unique(np.concatenate(out)).view(f["np"])


def coset(dtype, k, seed=0, finite_only=True):
    """All bit patterns congruent to r mod 2**k (r from seed)."""
    f = fmt_of(dtype)
    nb = f["bits"]
    assert nb <= 32
    r = (seed * 2654435761 + 12345) % (1 << k)
    bits = np.arange(r, 1 << nb, 1 << k, dtype=np.uint64).astype(f["ui"])
    v = bits.view(f["np"])
    if finite_only:
        v = v[np.isfinite(v)]
    else:
        v = v[~np.isnan(v)]
    return v


def neighbours(values, dtype, k=2):
    """values together with their +-1..k ULP neighbours (ordinal arithmetic), finite only."""
    from mc.oracle import from_ordinal, ordinal

    v = np.asarray(values, dtype=dtype)
    v = v[np.isfinite(v)]
    o = ordinal(v)
    f = fmt_of(dtype)
    omax = int(ordinal(np.array(np.finfo(dtype).max, dtype=dtype)))
    allo = np.concatenate([o + d for d in range(-k, k + 1)])
    allo = allo[(allo >= -omax) & (allo <= omax)]
    out = from_ordinal(np.unique(allo), dtype)
    if np.any(out == 0):
        out = np.concatenate([out, -out[out == 0]])
    return out


def specials(dtype, with_inf=True):
    fi = np.finfo(dtype)
    t = np.dtype(dtype).type
    one = t(1)
    vals = [t(0), fi.smallest_subnormal, fi.smallest_normal, np.nextafter(fi.smallest_normal, t(0)),
            np.nextafter(one, t(0)), one, np.nextafter(one, t(2)), t(2), t(0.5), fi.max, np.nextafter(fi.max, t(0)),
            t(fi.eps), t(1.5), t(3)]
    if with_inf:
        vals.append(t(np.inf))
    a = np.array(vals, dtype=dtype)
    f = fmt_of(dtype)
    return np.unique(np.concatenate([a, -a]).view(f["ui"])).view(f["np"])  # unique on bits keeps -0
