"""C01 — complex-plane accuracy of every complex algorithm (16-ULP bound, no spurious NaN/inf/sign,
3/4-ULP design target on >= 99.9 % of two regular lattices).

Per algorithm and dtype, the package-expanded graph (mc.expand) evaluated by mc.interp on
 (1) the full product S x S of a boundary lattice (binades incl. subnormal ones x mantissa patterns,
     every constant of the graph +-2 ULP, special values),
 (2) the refined region boundaries: along every lattice row and column, wherever the vector of
     `select` outcomes (branch signature) of two consecutive lattice points differs, bisection on the
     bit pattern down to two adjacent floats; both and their +-1,+-2 ULP neighbours are added,
 (3) two rate lattices enumerated completely: a regular coset of (re, im) bit patterns, and the
     product of binades 2^-12..2^12 x mantissas x signs.
Oracle: a wider-precision NumPy evaluation (complex128 for complex64, clongdouble for complex128)
is used only as a *filter*; every point that is not within 1 ULP of it in both components, or has
a non-finite component, is decided by mc.cref (mpmath, two precisions).  Infinite arguments are
judged against the C99 Annex-G value given by NumPy only where a second source (mpmath at two huge
finite substitutes) agrees; otherwise the point is counted as skipped.
A sub-lattice of every run is replayed through the actual emitted NumPy code and must agree with
mc.interp bit for bit (traces_validated_against_impl).
"""

from __future__ import annotations

import numpy as np

from mc import cref, expand, interp, lattice
from mc.harness import add_violation, bump, new_part, quiet, setup_repo_import
from mc.oracle import FMT, from_ordinal, ordinal

PROPERTY = "C01"
LEVEL = "exploration"
MOD = "mc.checks.c01"

CFUNCS = "absolute acos acosh asin asinh atan atanh exp log log2 log10 log1p sqrt square".split()
CT = {"complex64": (np.complex64, np.float32, np.complex128), "complex128": (np.complex128, np.float64, np.clongdouble)}
TARGET = {f: 3 for f in CFUNCS}
TARGET.update(sqrt=4, log1p=4)
WIDE = {
    "absolute": np.abs, "acos": np.arccos, "acosh": np.arccosh, "asin": np.arcsin, "asinh": np.arcsinh, "atan": np.arctan, "atanh": np.arctanh,
    "exp": np.exp, "log": np.log, "log2": lambda z: np.log(z) / np.log(z.real.dtype.type(2)), "log10": lambda z: np.log(z) / np.log(z.real.dtype.type(10)),
    "log1p": np.log1p, "sqrt": np.sqrt, "square": lambda z: z * z,
}

_I = {}
_F = {}


def get_interp(fa, name, cname):
    key = (name, cname)
    if key not in _I:
        try:
            g = expand.expanded_graph(fa, name, CT[cname][0])
            _I[key] = interp.Interp(fa, g)
            with quiet():
                _F[key] = fa.targets.numpy.as_function(g, debug=0)
        except Exception as e:
            _I[key] = e
    return _I[key]


def evalf(fa, fname, cname, X, Y, selects=False):
    it = get_interp(fa, fname, cname)
    if isinstance(it, Exception):
        raise it
    ct = CT[cname][0]
    z = np.empty(X.shape, dtype=ct)
    z.real = X
    z.imag = Y
    if selects:
        w, ex = it.run(z, record_selects=True)
        sig = np.zeros(X.shape, dtype=np.uint64)
        for i, c in enumerate(ex["selects"]):
            sig |= np.broadcast_to(np.asarray(c), X.shape).astype(np.uint64) << np.uint64(i % 64)
        return w, sig
    return it.run(z)


def sig_of(fa, fname, cname, X, Y):
    return evalf(fa, fname, cname, X, Y, selects=True)[1]


# ------------------------------------------------------------------ judging


def judge_points(part, fa, fname, cname, X, Y, rate_key=None):
    """Judge all points (finite or infinite, non-NaN components)."""
    ct, ft, wt = CT[cname]
    dtname = np.dtype(ft).name
    n = X.size
    if not n:
        return
    try:
        w = evalf(fa, fname, cname, X, Y)
    except Exception as e:
        add_violation(part, f"{fname}:{cname}:raises", f"{type(e).__name__}: {e}", {"func": fname, "dtype": cname, "x": float(X[0]).hex(), "y": float(Y[0]).hex()})
        return
    part["evaluations"] += n
    real_out = fname == "absolute"
    gre = np.asarray(w.real if not real_out else w, dtype=ft)
    gim = np.asarray(w.imag, dtype=ft) if not real_out else np.zeros(n, dtype=ft)
    with np.errstate(all="ignore"):
        zw = np.empty(n, dtype=wt)
        zw.real = X
        zw.imag = Y
        W = WIDE[fname](zw)
        if real_out:
            fre = np.asarray(W).real.astype(ft)
            fim = np.zeros(n, dtype=ft)
        else:
            fre = np.asarray(W.real).astype(ft)
            fim = np.asarray(W.imag).astype(ft)

    def close(g, f):
        fin = np.isfinite(g) & np.isfinite(f)
        d = np.abs(ordinal(np.where(fin, g, 0).astype(ft)) - ordinal(np.where(fin, f, 0).astype(ft)))
        return fin & ((d <= 1) | ((g == 0) & (f == 0)))

    inf_in = np.isinf(X) | np.isinf(Y)
    accept = close(gre, fre) & close(gim, fim) & ~inf_in
    esc = np.flatnonzero(~accept)
    bump(part, f"escalated_{fname}_{cname}", int(len(esc)))
    tgt = TARGET[fname]
    over_target = 0
    for i in esc:
        x, y = X[i], Y[i]
        case = {"func": fname, "dtype": cname, "x": float(x).hex(), "y": float(y).hex()}
        g = (gre[i], gim[i])
        if inf_in[i]:
            cands = inf_reference(fname, x, y, dtname, (fre[i], fim[i]))
            if cands is None:
                bump(part, "skipped_infinite_argument_no_agreed_reference")
                continue
            region = "inf-argument"
        else:
            cands = cref.cref(fname, x, y, dtname)
            if cands is not None and fname in ("log", "log2", "log10") and x == 0 and y == 0:
                # arg(+-0 +- 0i) is 0 or +-pi depending on the signs of both zeros (Annex G): the real part
                # must be -inf, the imaginary part is not judged here
                cands = [(c[0], ft(np.nan)) for c in cands]
            if cands is None:
                bump(part, "skipped_reference_not_converged")
                continue
            region = zone(x, y, ft)
        best = None
        for cre, cim in cands:
            v = judge_pair(g, (cre, cim), real_out)
            if best is None or v[0] < best[0]:
                best = v
        worst, why, comp = best
        if why is not None:
            add_violation(part, f"{fname}:{cname}:{why}:{comp}:{region}", f"{fname}({x!r}+{y!r}j) [{cname}] = ({g[0]!r},{g[1]!r}); reference {[(float(a), float(b)) for a, b in cands]}: {why} in {comp}" + (f" ({worst} ULP)" if worst < 10**17 else ""), case)
        elif worst > tgt:
            over_target += 1
            if len(part["samples"]) < 3:
                part["samples"].append({"over_target": fname, "dtype": cname, "x": float(x).hex(), "y": float(y).hex(), "ulp": int(worst)})
    if rate_key is not None:
        bump(part, f"rate_n:{rate_key}:{fname}:{cname}", n)
        bump(part, f"rate_over:{rate_key}:{fname}:{cname}", over_target)
    part["nontrivial"] += int((np.isfinite(gre) & np.isfinite(gim) & (gre != 0) & ~inf_in).sum())


def judge_pair(g, c, real_out):
    """returns (worst ULP distance, violation kind or None, component)"""
    worst = 0
    for comp, gv, cv in (("re", g[0], c[0]), ("im", g[1], c[1])):
        if real_out and comp == "im":
            continue
        if np.isnan(cv):
            continue  # reference undefined: nothing to judge
        if np.isnan(gv):
            return (10**18, "spurious-nan", comp)
        if np.isinf(cv) or np.isinf(gv):
            if gv == cv:
                continue
            # an infinity one step beyond the largest finite value is an ordinary rounding error at the
            # overflow edge: measure it on the extended lattice (inf = ordinal(max) + 1)
            fin, infv = (cv, gv) if np.isinf(gv) else (gv, cv)
            if np.isinf(fin) or np.signbit(fin) != np.signbit(infv):
                return (10**18, "spurious-or-missing-infinity", comp)
            omax = int(ordinal(np.finfo(fin.dtype).max))
            d = omax + 1 - abs(int(ordinal(fin)))
            if d > 16:
                return (10**18, "spurious-or-missing-infinity", comp)
            worst = max(worst, d)
            continue
        if cv != 0 and gv != 0 and np.signbit(cv) != np.signbit(gv):
            d = abs(int(ordinal(gv)) - int(ordinal(cv)))
            if d > 16:
                return (10**18, "wrong-sign", comp)
        d = abs(int(ordinal(gv)) - int(ordinal(cv)))
        if d > 16:
            # two magnitude classes, so that a recorded moderate loss does not hide a catastrophic one in the same region
            return (d, ">16ulp" if d <= 4096 else ">4096ulp", comp)
        worst = max(worst, d)
    return (worst, None, None)


def zone(x, y, ft):
    fi = np.finfo(ft)
    def c(v):
        a = abs(float(v))
        if a == 0:
            return "0"
        if a == 1:
            return "one"
        if abs(a - 2.0) <= 2.0 ** -6:
            return "near2"
        if a < float(fi.smallest_normal):
            return "sub"
        if a < 1e-3:
            return "small"
        if a <= 1e3:
            return "mid"
        if a < float(fi.max) ** 0.5:
            return "large"
        return "huge"
    return f"x={c(x)},y={c(y)}"


def inf_reference(fname, x, y, dtname, numpy_value):
    """Annex-G value from NumPy, accepted only where mpmath at two huge finite substitutes agrees:
    finite components must match to 1e-6 relative, infinite ones must be growing with the same sign."""
    ft = FMT[dtname]["np"]
    nre, nim = numpy_value
    H1, H2 = 2.0 ** (FMT[dtname]["emax"] // 2), 2.0 ** (FMT[dtname]["emax"] - 2)
    vals = []
    for H in (H1, H2):
        sx = np.sign(x) * H if np.isinf(x) else float(x)
        sy = np.sign(y) * H if np.isinf(y) else float(y)
        c = cref.cref(fname, np.float64(sx), np.float64(sy), "float64")
        if c is None:
            return None
        vals.append(c[0])
    ok = True
    for k, nv in enumerate((nre, nim)):
        a, b = float(vals[0][k]), float(vals[1][k])
        if np.isnan(nv):
            return None
        if np.isinf(nv):
            if not (np.sign(a) == np.sign(nv) and np.sign(b) == np.sign(nv) and abs(b) >= abs(a) and abs(b) > 1):
                ok = False
        else:
            if not (abs(b - float(nv)) <= 1e-6 * max(abs(float(nv)), 1e-300) + 1e-300 or (float(nv) == 0 and abs(b) < 1e-6)):
                ok = False
    if not ok:
        return None
    cands = [(ft(nre), ft(nim))]
    ck = cref.cut_kind(fname, x, y)
    if ck == "real":
        cands.append((ft(nre), -ft(nim)))
    elif ck == "imag":
        cands.append((-ft(nre), ft(nim)))
    return cands


# ------------------------------------------------------------------ lattices and boundary refinement


def graph_constants(fa, fname, cname):
    ct, ft, _ = CT[cname]
    it = get_interp(fa, fname, cname)
    vals = []
    if isinstance(it, Exception):
        return vals
    try:
        _, ex = it.run(np.ones(1, dtype=ct), return_env=True)
    except Exception:
        return vals
    for e in it.order:
        if e.kind == "constant":
            v = ex["env"].get(id(e))
            if v is not None and not isinstance(v, interp.Cx):
                a = np.asarray(v)
                if a.dtype.kind == "f" and a.size == 1 and np.isfinite(a).all():
                    vals.append(float(a.reshape(-1)[0]))
    return sorted(set(vals))


def boundary_lattice(fa, fname, cname, size, seed):
    ct, ft, _ = CT[cname]
    f = FMT[np.dtype(ft).name]
    nb = f["emax"] - f["emin"] + f["p"]
    estride = max(1, (2 * nb * 3) // max(size - 80, 1))
    lat = lattice.binade_lattice(ft, mantissas=3, estride=estride, ephase=seed % estride, seed=seed, include_inf=True)
    th = graph_constants(fa, fname, cname)
    thn = lattice.neighbours(np.array(th + [1.0], dtype=ft), ft, 2)
    a = np.concatenate([lat, thn, -thn, lattice.specials(ft)])
    bits = np.unique(a.view(f["ui"]))
    v = bits.view(ft)
    v = v[~np.isnan(v)]
    return v[np.argsort(ordinal(v), kind="stable")]


def refine_boundaries(fa, fname, cname, S, rows, axis):
    """For fixed other-coordinate values `rows`, walk along S (sorted by ordinal): wherever the branch
    signature changes between consecutive points bisect (on ordinals) to two adjacent floats.
    Returns arrays (A, B) of coordinates along `axis` and the fixed coordinate."""
    ct, ft, _ = CT[cname]
    Sf = S[np.isfinite(S)]
    oS = ordinal(Sf)
    out_a, out_b = [], []
    for c in rows:
        if not np.isfinite(c):
            continue
        C = np.full(Sf.shape, c, dtype=ft)
        sig = sig_of(fa, fname, cname, Sf, C) if axis == 0 else sig_of(fa, fname, cname, C, Sf)
        ch = np.flatnonzero(sig[1:] != sig[:-1])
        if not len(ch):
            continue
        lo, hi = oS[ch].copy(), oS[ch + 1].copy()
        slo = sig[ch].copy()
        for _ in range(70):
            act = (hi - lo) > 1
            if not act.any():
                break
            mid = lo + (hi - lo) // 2
            M = from_ordinal(mid, ft)
            Cm = np.full(M.shape, c, dtype=ft)
            sm = sig_of(fa, fname, cname, M, Cm) if axis == 0 else sig_of(fa, fname, cname, Cm, M)
            same = sm == slo
            lo = np.where(act & same, mid, lo)
            hi = np.where(act & ~same, mid, hi)
        omax = int(ordinal(np.array(np.finfo(ft).max, dtype=ft)))
        allo = np.unique(np.concatenate([lo + d for d in (-2, -1, 0)] + [hi + d for d in (0, 1, 2)]))
        allo = allo[np.abs(allo) <= omax]
        pts = from_ordinal(allo, ft)
        out_a.append(pts)
        out_b.append(np.full(pts.shape, c, dtype=ft))
    if not out_a:
        return np.zeros(0, ft), np.zeros(0, ft)
    return np.concatenate(out_a), np.concatenate(out_b)


# ------------------------------------------------------------------ workers


def w_func(task):
    """one (function, dtype, block of lattice rows)."""
    fa = setup_repo_import()
    part = new_part()
    fname, cname = task["func"], task["dtype"]
    ct, ft, _ = CT[cname]
    ui = FMT[np.dtype(ft).name]["ui"]
    S = np.array(task["S_bits"], dtype=np.uint64).astype(ui).view(ft)
    rows = S[task["rows"][0]:task["rows"][1]]
    if not len(rows):
        return part
    X, Y = np.meshgrid(rows, S, indexing="ij")
    judge_points(part, fa, fname, cname, X.ravel(), Y.ravel())
    # region boundaries along rows (x fixed, y varies) and columns (y fixed, x varies)
    try:
        for axis in (0, 1):
            A, B = refine_boundaries(fa, fname, cname, S, rows, axis)
            bump(part, f"boundary_points_{fname}_{cname}", int(len(A)))
            if len(A):
                if axis == 0:
                    judge_points(part, fa, fname, cname, A, B)
                else:
                    judge_points(part, fa, fname, cname, B, A)
        # distinct branch signatures seen in this block
        sig = sig_of(fa, fname, cname, X.ravel(), Y.ravel())
        part["counters"][f"sigset:{fname}:{cname}"] = sorted(set(int(s) for s in np.unique(sig)))[:4000]
    except Exception as e:
        add_violation(part, f"{fname}:{cname}:boundary-refinement-raises", f"{type(e).__name__}: {e}", {"func": fname, "dtype": cname, "x": float(rows[0]).hex(), "y": float(S[0]).hex()})
    part["samples"].append({"func": fname, "dtype": cname, "x0": float(rows[0]).hex(), "n_x": int(len(rows)), "n_y": int(len(S))})
    return part


def w_rate(task):
    fa = setup_repo_import()
    part = new_part()
    cname = task["dtype"]
    ct, ft, _ = CT[cname]
    f = FMT[np.dtype(ft).name]
    if task["kind"] == "coset":
        k, off, lo, hi = task["k"], task["off"], task["lo"], task["hi"]
        nb = f["bits"]
        step = 1 << (nb - k)
        grid = ((np.arange(1 << k, dtype=np.uint64) * np.uint64(step)) + np.uint64(off % step)).astype(f["ui"]).view(ft)
        grid = grid[~np.isnan(grid)]
        rows = grid[lo:hi]
        X, Y = np.meshgrid(rows, grid, indexing="ij")
    else:
        m = task["mantissas"]
        w = f["p"] - 1
        pats = lattice.mantissa_patterns(ft, m, task["seed"])
        vals = []
        for e in range(-12, 13):
            for pm in pats:
                vals.append((1.0 + pm / float(1 << w)) * 2.0 ** e)
        a = np.array(vals, dtype=ft)
        grid = np.concatenate([-a[::-1], a])
        rows = grid[task["lo"]:task["hi"]]
        X, Y = np.meshgrid(rows, grid, indexing="ij")
    for fname in task["funcs"]:
        judge_points(part, fa, fname, cname, X.ravel(), Y.ravel(), rate_key=task["kind"])
    return part


def unit_modulus_points(ft, seed, m):
    """points whose modulus is within a few ULP of 1 (and their translates by -1): x on a binade x mantissa lattice in
    (2^-12, 1], y = RN(sqrt(1 - x^2)) + k ULP for k in -2..2, all sign combinations and both component orders."""
    f = FMT[np.dtype(ft).name]
    w = f["p"] - 1
    pats = lattice.mantissa_patterns(ft, m, seed)
    xs = []
    for e in range(-12, 0):
        for pm in pats:
            xs.append((1.0 + pm / float(1 << w)) * 2.0 ** e)
    xs += [0.6, 0.8, 0.28, 0.96, 5.0 / 13.0, 12.0 / 13.0, 1.0, 2.0 ** -0.5]
    xs = np.unique(np.array(xs, dtype=ft))
    xl = xs.astype(np.longdouble)
    y0 = np.sqrt(np.maximum(np.longdouble(1) - xl * xl, 0)).astype(ft)
    X, Y = [], []
    o = ordinal(y0)
    for k in range(-2, 3):
        yk = from_ordinal(o + k, ft)
        for sx in (1, -1):
            for sy in (1, -1):
                X += [sx * xs, sy * yk]
                Y += [sy * yk, sx * xs]
    X, Y = np.concatenate(X).astype(ft), np.concatenate(Y).astype(ft)
    # translates: 1 + z has modulus ~ 1
    X2 = np.concatenate([X, (X.astype(np.longdouble) - 1).astype(ft)])
    Y2 = np.concatenate([Y, Y])
    return X2, Y2


def w_unit(task):
    fa = setup_repo_import()
    part = new_part()
    cname = task["dtype"]
    ct, ft, _ = CT[cname]
    X, Y = unit_modulus_points(ft, task["seed"], task["mantissas"])
    sl = slice(task["lo"], None, task["stride"])
    for fname in task["funcs"]:
        judge_points(part, fa, fname, cname, X[sl], Y[sl])
    part["samples"].append({"unit_modulus_lattice": cname, "points": int(len(X[sl])), "x0": float(X[sl][0]).hex(), "y0": float(Y[sl][0]).hex()})
    return part


def w_shared_context(task):
    """histories on ONE Context: trace f, then g (same dtype); g must compute exactly what it computes when traced in a
    fresh Context."""
    fa = setup_repo_import()
    part = new_part()
    cname = task["dtype"]
    ct, ft, _ = CT[cname]
    fi = np.finfo(ft)
    big = float(fi.max)
    v = [0.0, 0.5, 1.0, 1.5, 1e3, 1e-3, float(fi.smallest_normal), float(np.sqrt(fi.max)), 0.5 * float(np.sqrt(fi.max)), 0.4 * big, 0.6 * big, big, float(np.sqrt(fi.eps)), 1e-5]
    with np.errstate(all="ignore"):
        S = np.array(v + [-a for a in v], dtype=ft)
    X, Y = (a.ravel() for a in np.meshgrid(S, S, indexing="ij"))
    for f, g in task["pairs"]:
        it = get_interp(fa, g, cname)
        if isinstance(it, Exception):
            continue
        part["evaluations"] += 1
        want = evalf(fa, g, cname, X, Y)
        try:
            with quiet():
                ctx = fa.Context(paths=[fa.algorithms])
                expand.expanded_graph(fa, f, ct, ctx=ctx)
                g2 = expand.expanded_graph(fa, g, ct, ctx=ctx)
            with np.errstate(all="ignore"):
                got = np.asarray(interp.Interp(fa, g2).run(_cplx(X, Y, ct)))
        except Exception as e:
            add_violation(part, f"shared-context:{g}-after-{f}:{cname}:raises", f"one Context: tracing {f} then {g} [{cname}] raised {type(e).__name__}: {e}", {"func": g, "dtype": cname, "x": "0x0p+0", "y": "0x0p+0", "shared": [f, g]})
            continue
        if f != g:
            part["nontrivial"] += 1
        want = np.asarray(want)
        gr, gi, wr, wi = (np.asarray(a, dtype=ft) for a in (got.real, got.imag, want.real, want.imag))
        ui = FMT[np.dtype(ft).name]["ui"]
        neq = ~(((gr.view(ui) == wr.view(ui)) | (np.isnan(gr) & np.isnan(wr))) & ((gi.view(ui) == wi.view(ui)) | (np.isnan(gi) & np.isnan(wi))))
        if neq.any():
            i = int(np.flatnonzero(neq)[0])
            add_violation(part, f"shared-context:{g}-after-{f}:{cname}:differs-from-fresh-context", f"one Context: {g} traced after {f} [{cname}] returns {got[i]!r} at ({X[i]!r},{Y[i]!r}); traced in a fresh Context {want[i]!r}", {"func": g, "dtype": cname, "x": float(X[i]).hex(), "y": float(Y[i]).hex(), "shared": [f, g]})
    part["samples"].append({"shared_context_pairs": cname, "pairs": task["pairs"][:3]})
    return part


def _cplx(X, Y, ct):
    z = np.empty(X.shape, dtype=ct)
    z.real, z.imag = X, Y
    return z


def w_conformance(task):
    """replay a sub-lattice through the emitted NumPy code: bit identity with mc.interp."""
    fa = setup_repo_import()
    part = new_part()
    fname, cname = task["func"], task["dtype"]
    ct, ft, _ = CT[cname]
    ui = FMT[np.dtype(ft).name]["ui"]
    S = np.array(task["S_bits"], dtype=np.uint64).astype(ui).view(ft)
    it = get_interp(fa, fname, cname)
    if isinstance(it, Exception):
        return part
    f = _F[(fname, cname)]
    X, Y = np.meshgrid(S, S, indexing="ij")
    X, Y = X.ravel(), Y.ravel()
    w = evalf(fa, fname, cname, X, Y)
    n = 0
    with np.errstate(all="ignore"):
        for i in range(len(X)):
            z = ct(0)
            z = np.array([0], dtype=ct)
            z.real = X[i]
            z.imag = Y[i]
            v = np.asarray(f(z[0]))
            a, b = (np.asarray(v.real, dtype=ft), np.asarray(v.imag, dtype=ft)), (np.asarray(w[i].real, dtype=ft), np.asarray(w[i].imag, dtype=ft))
            same = all((p.tobytes() == q.tobytes()) or (np.isnan(p) and np.isnan(q)) for p, q in zip(a, b))
            n += 1
            if not same:
                add_violation(part, f"conformance:{fname}:{cname}", f"emitted NumPy code gives {v!r} but the DAG interpreter {w[i]!r} at ({X[i]!r},{Y[i]!r})", {"func": fname, "dtype": cname, "x": float(X[i]).hex(), "y": float(Y[i]).hex(), "conformance": True})
    bump(part, "conformance_points", n)
    return part


def run(run):
    thorough = run.tier == "thorough"
    fa = setup_repo_import()
    for cname in CT:
        for fn in CFUNCS:
            it = get_interp(fa, fn, cname)
            if isinstance(it, Exception):
                p_ = new_part()
                add_violation(p_, f"{fn}:{cname}:build-raises", f"{type(it).__name__}: {it}", {"func": fn, "dtype": cname, "x": "0x0p+0", "y": "0x0p+0"})
                run.merge(p_)
    tasks, ctasks = [], []
    for cname in CT:
        ct, ft, _ = CT[cname]
        ui = FMT[np.dtype(ft).name]["ui"]
        for fn in CFUNCS:
            if isinstance(_I[(fn, cname)], Exception):
                continue
            S = boundary_lattice(fa, fn, cname, (700 if cname == "complex64" else 500) if thorough else 220, run.seed)
            Sb = [int(b) for b in S.view(ui).astype(np.uint64)]
            run.counters[f"S:{fn}:{cname}"] = len(Sb)
            step = 8 if not thorough else 6
            for i in range(0, len(Sb), step):
                tasks.append(dict(func=fn, dtype=cname, S_bits=Sb, rows=[i, i + step]))
            sub = Sb[:: max(1, len(Sb) // (40 if not thorough else 120))]
            ctasks.append(dict(func=fn, dtype=cname, S_bits=sub))
    import sys, time
    t0 = time.time()
    run.map(MOD, "w_func", tasks)
    print(f"[C01] lattice+boundaries: {len(tasks)} tasks {time.time() - t0:.0f}s", file=sys.stderr, flush=True)
    t0 = time.time()
    run.map(MOD, "w_conformance", ctasks)
    print(f"[C01] conformance: {len(ctasks)} tasks {time.time() - t0:.0f}s", file=sys.stderr, flush=True)
    t0 = time.time()
    rtasks = []
    for cname in CT:
        k = 10 if thorough else 8
        off = (run.seed * 2654435761 + 977) & 0xFFFFFFFFFFFF
        n = 1 << k
        stepr = 16 if thorough else 8
        for lo in range(0, n, stepr):
            rtasks.append(dict(kind="coset", dtype=cname, k=k, off=off, lo=lo, hi=lo + stepr, funcs=CFUNCS))
        m = 16 if thorough else 6
        ng = 25 * m * 2
        for lo in range(0, ng, 10):
            rtasks.append(dict(kind="binades", dtype=cname, mantissas=m, seed=run.seed, lo=lo, hi=lo + 10, funcs=CFUNCS))
    run.map(MOD, "w_rate", rtasks)
    if thorough:
        spairs = [[f, g] for f in CFUNCS for g in CFUNCS]
    else:
        spairs = [[CFUNCS[(i + 1 + run.seed) % len(CFUNCS)], g] for i, g in enumerate(CFUNCS)] + [["asinh", "acosh"], ["acosh", "asinh"], ["log", "log1p"], ["log1p", "log"], ["asin", "acos"], ["sqrt", "asin"]]
    run.map(MOD, "w_shared_context", [dict(dtype=cname, pairs=spairs[lo::8]) for cname in CT for lo in range(8)])
    utasks = [dict(dtype=cname, seed=run.seed, mantissas=16 if thorough else 6, lo=lo, stride=16, funcs=CFUNCS) for cname in CT for lo in range(16)]
    run.map(MOD, "w_unit", utasks)
    print(f"[C01] rate lattices: {len(rtasks)} tasks {time.time() - t0:.0f}s", file=sys.stderr, flush=True)
    # rate clause
    rates = {}
    for key in list(run.counters):
        if key.startswith("rate_n:"):
            _, kind, fn, cname = key.split(":")
            n = run.counters[key]
            over = run.counters.get(f"rate_over:{kind}:{fn}:{cname}", 0)
            rates[f"{kind}:{fn}:{cname}"] = [int(over), int(n)]
            if n >= 1000 and over * 1000 > n:
                p_ = new_part()
                add_violation(p_, f"{fn}:{cname}:target-rate<99.9%:{kind}", f"{fn} {cname}: {over} of {n} points of the {kind} rate lattice exceed the {TARGET[fn]}-ULP design target", {"func": fn, "dtype": cname, "rate": kind, "over": int(over), "n": int(n)})
                run.merge(p_)
    run.coverage_extra["rate_over_target"] = rates
    run.coverage_extra["region_signatures"] = {k.split(":", 1)[1]: len(v) for k, v in sorted(run.sets.items()) if k.startswith("sigset:")}
    run.coverage_extra["traces_validated_against_impl"] = int(run.counters.get("conformance_points", 0))
    run.rule = (
        "14 algorithms x {complex64, complex128}: full product S x S of a boundary lattice (all binades incl. subnormal ones, strided with a seeded phase, x 3 mantissa "
        "patterns; every constant of the expanded graph +-2 ULP; special values; +-inf), refined region boundaries (bisection of every select-signature change "
        "along lattice rows/columns to adjacent floats, +-2 ULP), a regular coset of (re,im) bit patterns and the binade 2^-12..2^12 product lattice for the rate clause; the unit-modulus lattice (|z| and |1+z| within 2 ULP of 1: "
        "x on a binade x mantissa lattice, y = RN(sqrt(1-x^2)) +- 0..2 ULP, all signs and both orders); "
        "wide-precision filter + mpmath (two precisions) decision; non-trivial = points with finite non-zero real part of the result"
    )
    run.exhaustive = True
    run.coverage_extra["exhaustive_scope"] = "complete enumeration of the stated finite lattices; inputs off the lattices are not covered"
    run.assumptions = ["a point whose both components are within 1 ULP of an independent wider-precision NumPy evaluation is within the 3-ULP target", "mpmath values that round identically at two working precisions are correct", "Annex-G limits at infinite arguments are judged only where NumPy and mpmath substitutes agree"]


def replay(case):
    fa = setup_repo_import()
    part = new_part()
    if "rate" in case:
        return [("rate clause: re-run the tier to re-measure", str(case))]
    cname = case["dtype"]
    ct, ft, _ = CT[cname]
    X = np.array([float.fromhex(case["x"])], dtype=ft)
    Y = np.array([float.fromhex(case["y"])], dtype=ft)
    if case.get("conformance"):
        ui = FMT[np.dtype(ft).name]["ui"]
        get_interp(fa, case["func"], cname)
        p2 = new_part()
        it = _I[(case["func"], cname)]
        f = _F[(case["func"], cname)]
        z = np.array([0], dtype=ct)
        z.real = X
        z.imag = Y
        with np.errstate(all="ignore"):
            v = np.asarray(f(z[0]))
            w = it.run(z)[0]
        if not (np.asarray(v.real, dtype=ft).tobytes() == np.asarray(w.real, dtype=ft).tobytes() and np.asarray(v.imag, dtype=ft).tobytes() == np.asarray(w.imag, dtype=ft).tobytes()):
            add_violation(part, f"conformance:{case['func']}:{cname}", f"{v!r} vs {w!r}", case)
    else:
        judge_points(part, fa, case["func"], cname, X, Y)
    return [(v["sig"], v["msg"]) for v in part["violations"]]
