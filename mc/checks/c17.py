"""C17 — argument reduction reconstructs its input.

float16: every finite x of the stated domains (|x| < log(largest); |x| <= largest/2^j), exhaustive.
float32/float64: binade lattice  U  complete +-W-ULP neighbourhoods of k*ln2 for every representable
k and of k*pi/2 for k < K  U  continued-fraction hard cases (mantissas M < 2^p with M*2^e closest to
a multiple of pi/2 resp. ln2, for every binade of the domain)  U  the |x| < pi/4 transition.
Oracle: mpmath at >= 10x the format's worst-case precision.
  exponential: k integral; |r+c| <= 0.55 ln2; ordinal distance between RN(k ln2 + (r+c)) and x <= 1
  trigonometric: k in {0,1,2,3}; |r| <= 1.1 pi/4; with N = the integer nearest to x*2/pi that is
      congruent to k mod 4, ordinal distance between RN(r+t) and RN(x - N pi/2) <= 1 (10 in float16)
"""

from __future__ import annotations

from fractions import Fraction as F

import numpy as np

from mc import lattice
from mc.harness import add_violation, bump, new_part, setup_repo_import
from mc.oracle import FMT, from_ordinal, ordinal, rn

PROPERTY = "C17"
LEVEL = "exploration"
MOD = "mc.checks.c17"
DT = {"float16": np.float16, "float32": np.float32, "float64": np.float64}
TRIG_J = {"float64": 18, "float32": 5, "float16": 2}
MAXPREC = {"float16": 24, "float32": 149, "float64": 1074}

_CONST = {}


def consts(dtname):
    """ln2 and pi/2 as Fractions accurate to far beyond the format's needs."""
    if dtname not in _CONST:
        import mpmath

        prec = MAXPREC[dtname] * 10 + 200
        with mpmath.workprec(prec):
            def tofrac(v):
                s, m, e, _ = v._mpf_
                q = F(int(m)) * F(2) ** int(e)
                return -q if s else q

            _CONST[dtname] = dict(ln2=tofrac(mpmath.mp.ln2 + 0), pio2=tofrac(mpmath.mp.pi / 2))
    return _CONST[dtname]


def fr(x):
    return F(float(x))


def rnd_int(q):
    """nearest integer to a Fraction (ties away)."""
    return (2 * q.numerator + q.denominator) // (2 * q.denominator)


def judge_exp(fa, part, dtname, x):
    t = DT[dtname]
    fpa = fa.floating_point_algorithms
    ctx = fa.utils.NumpyContext(t)
    c_ = consts(dtname)
    part["evaluations"] += 1
    case = {"kind": "exp", "dtype": dtname, "x": float(x).hex()}
    mag = "subnormal" if x != 0 and abs(x) < np.finfo(t).smallest_normal else ("zero" if x == 0 else "normal")
    try:
        with np.errstate(all="ignore"):
            k, r, c = fpa.argument_reduction_exponent(ctx, x)
    except Exception as e:
        add_violation(part, f"exponent:{dtname}:raises", f"argument_reduction_exponent({x!r}) raised {type(e).__name__}: {e}", case)
        return
    if not all(isinstance(v, t) for v in (k, r, c)):
        add_violation(part, f"exponent:{dtname}:result-type", f"types {type(k).__name__},{type(r).__name__},{type(c).__name__}", case)
        return
    if not (np.isfinite(k) and float(k) == int(k)):
        add_violation(part, f"exponent:{dtname}:k-not-integral:{mag}", f"x={x!r}: k={k!r}", case)
        return
    if not (np.isfinite(r) and np.isfinite(c)):
        add_violation(part, f"exponent:{dtname}:nonfinite-remainder:{mag}", f"x={x!r}: r={r!r} c={c!r}", case)
        return
    rc = fr(r) + fr(c)
    if abs(rc) > F(55, 100) * c_["ln2"]:
        add_violation(part, f"exponent:{dtname}:|r+c|>0.55ln2:{mag}", f"x={x!r}: k={k!r} r={r!r} c={c!r}", case)
    recon = int(k) * c_["ln2"] + rc
    back = rn(recon, dtname)
    d = abs(int(ordinal(back)) - int(ordinal(x)))
    if d > 1:
        add_violation(part, f"exponent:{dtname}:reconstruction>1ulp:{mag}", f"x={x!r}: k={k!r} r={r!r} c={c!r}: k ln2 + (r+c) rounds to {back!r}, {d} ULP from x", case)
    if k != 0:
        part["nontrivial"] += 1
    return (k, r, c)


def judge_trig(fa, part, dtname, x):
    t = DT[dtname]
    fpa = fa.floating_point_algorithms
    ctx = fa.utils.NumpyContext(t)
    c_ = consts(dtname)
    part["evaluations"] += 1
    case = {"kind": "trig", "dtype": dtname, "x": float(x).hex()}
    try:
        with np.errstate(all="ignore"):
            k, r, tt = fpa.argument_reduction_trigonometric(ctx, x)
    except Exception as e:
        add_violation(part, f"trig:{dtname}:raises", f"argument_reduction_trigonometric({x!r}) raised {type(e).__name__}: {e}", case)
        return
    if not (isinstance(r, t) and isinstance(tt, t)):
        add_violation(part, f"trig:{dtname}:result-type", f"types {type(r).__name__},{type(tt).__name__}", case)
        return
    if not (np.isfinite(k) and float(k) in (0.0, 1.0, 2.0, 3.0)):
        add_violation(part, f"trig:{dtname}:k-not-in-0..3", f"x={x!r}: k={k!r}", case)
        return
    if not (np.isfinite(r) and np.isfinite(tt)):
        add_violation(part, f"trig:{dtname}:nonfinite-remainder", f"x={x!r}: r={r!r} t={tt!r}", case)
        return
    pio2 = c_["pio2"]
    if abs(fr(r)) > F(11, 10) * pio2 / 2:
        add_violation(part, f"trig:{dtname}:|r|>1.1pi/4", f"x={x!r}: k={k!r} r={r!r}", case)
    fx = fr(x)
    y = fx / pio2
    kk = int(k)
    N = kk + 4 * rnd_int((y - kk) / 4)
    rem = fx - N * pio2
    want = rn(rem, dtname)
    got = rn(fr(r) + fr(tt), dtname)
    d = abs(int(ordinal(got)) - int(ordinal(want)))
    lim = 10 if dtname == "float16" else 1
    if abs(rem) > F(11, 10) * pio2 / 2:
        # k is not the quadrant of x at all
        add_violation(part, f"trig:{dtname}:wrong-quadrant", f"x={x!r}: k={k!r} but x - N pi/2 = {float(rem)!r} for the nearest N = k mod 4", case)
    elif d > lim:
        # the reduction works with a fixed number of bits of 2/pi, i.e. with a bounded *absolute* error of
        # the remainder; classify by that absolute error so that a larger one is a different signature
        import math

        aerr = abs(fr(r) + fr(tt) - rem)
        eb = math.floor(math.log2(float(aerr))) if aerr else -10**6
        B = {"float16": -11, "float32": -28, "float64": -70}[dtname]
        tiny = f"abserr<2^{B + 1}" if eb <= B else f"abserr=2^{eb}"
        add_violation(part, f"trig:{dtname}:remainder>{lim}ulp:{tiny}", f"x={x!r}: k={k!r} r+t={float(fr(r) + fr(tt))!r} true remainder {float(rem)!r}: {d} ULP", case)
    if N != 0:
        part["nontrivial"] += 1
    return (k, r, tt)


# ------------------------------------------------------------------ other routes to the same functions
# (a) the scalar route above takes the `isinstance(x, numpy scalar)` shortcut of the trigonometric reduction; arrays and
#     traced expressions go through the type-generic path (all three implementations + select on `largest`).
# (b) arrays through a NumpyContext, (c) the function traced with a Context, rewritten for NumPy and exec'd.
# Both are compared bit for bit with the scalar route (which the oracle judges), element by element.

_TRACED = {}


def traced(fa, which, dtname):
    key = (which, dtname)
    if key not in _TRACED:
        from mc.harness import quiet

        fpa = fa.floating_point_algorithms
        fn = fpa.argument_reduction_exponent if which == "exp" else fpa.argument_reduction_trigonometric

        def f(ctx, x):
            return fn(ctx, x)

        try:
            with quiet():
                ctx = fa.Context(paths=[fa.algorithms])
                g = ctx.trace(f, f"x:{dtname}").rewrite(fa.targets.numpy, fa.rewrite)
                src = g.tostring(fa.targets.numpy, debug=0)
                import sys as _sys
                import warnings as _warnings

                ns = dict(sys=_sys, numpy=np, make_complex=fa.utils.make_complex, finfo_float16=np.finfo(np.float16), finfo_float32=np.finfo(np.float32), finfo_float64=np.finfo(np.float64), warnings=_warnings)
                exec(compile(src, "<emitted>", "exec"), ns)
                _TRACED[key] = ns["f"]
        except Exception as e:  # the traced route is not available for this function/dtype: counted, not judged
            _TRACED[key] = e
    return _TRACED[key]


def same_bits(a, b):
    a, b = np.asarray(a), np.asarray(b)
    return a.dtype == b.dtype and (a.tobytes() == b.tobytes() or bool(np.isnan(a) and np.isnan(b)))


def compare_routes(fa, part, dtname, which, xs, scalar_results):
    """xs: list of scalars; scalar_results: list of tuples (or None) from the scalar route."""
    t = DT[dtname]
    fpa = fa.floating_point_algorithms
    fn = fpa.argument_reduction_exponent if which == "exp" else fpa.argument_reduction_trigonometric
    label = "exponent" if which == "exp" else "trig"
    routes = []
    # 0-d arrays (the functions convert multiword items with float(), so only 0-d arrays are accepted); every 3rd point
    sub = list(range(0, len(xs), 3))
    ks, rs, cs = [], [], []
    ctx0 = fa.utils.NumpyContext(t)
    try:
        with np.errstate(all="ignore"):
            for i in sub:
                k_, r_, c_ = fn(ctx0, np.array(xs[i], dtype=t))
                ks.append(k_), rs.append(r_), cs.append(c_)
        routes.append(("0-d-array", sub, [ks, rs, cs]))
    except Exception as e:
        add_violation(part, f"{label}:{dtname}:0-d-array-route-raises", f"{fn.__name__}(NumpyContext, 0-d array {xs[sub[len(ks)]]!r}) raised {type(e).__name__}: {e}", {"kind": which, "dtype": dtname, "x": float(xs[sub[len(ks)]]).hex(), "route": "0-d-array"})
    fT = traced(fa, which, dtname)
    if isinstance(fT, Exception):
        bump(part, f"traced_route_unavailable:{label}:{dtname}:{type(fT).__name__}")
    else:
        try:
            with np.errstate(all="ignore"):
                out = fT(np.array(xs, dtype=t))
            routes.append(("traced", list(range(len(xs))), [np.broadcast_to(np.asarray(o), (len(xs),)) for o in out]))
        except Exception as e:
            add_violation(part, f"{label}:{dtname}:traced-route-raises", f"emitted NumPy code of {fn.__name__} raised {type(e).__name__}: {e}", {"kind": which, "dtype": dtname, "x": float(xs[0]).hex(), "route": "traced"})
    for rname, idx, outs in routes:
        n_cmp = 0
        for j, i in enumerate(idx):
            sr = scalar_results[i]
            if sr is None:
                continue
            part["evaluations"] += 1
            n_cmp += 1
            got = tuple(o[j] for o in outs)
            # k is compared by value (the routes may deliver it in different integer/float types), r and c/t bit for bit
            ok = float(got[0]) == float(sr[0]) and np.asarray(got[1]).dtype == np.dtype(t) and same_bits(t(got[1]), sr[1]) and same_bits(t(got[2]), sr[2])
            if not ok:
                add_violation(part, f"{label}:{dtname}:{rname}-route-differs-from-scalar-route", f"x={xs[i]!r}: {rname} route gives (k, r, c/t) = {got}, scalar route {sr}", {"kind": which, "dtype": dtname, "x": float(xs[i]).hex(), "route": rname})
                break
        bump(part, f"route_compared:{rname}", n_cmp)


def w_shared_context(task):
    """histories on ONE NumpyContext: reductions of several float types in sequence; every result must equal the
    result obtained with a fresh context (no state carried from one request to the next)."""
    fa = setup_repo_import()
    part = new_part()
    fpa = fa.floating_point_algorithms
    pts = [0.4, 1.0, -3.0, 10.0, -10.5, 2.5, 0.001, -7.75]
    for which, fn in (("exp", fpa.argument_reduction_exponent), ("trig", fpa.argument_reduction_trigonometric)):
        label = "exponent" if which == "exp" else "trig"
        for d0 in ("float16", "float32", "float64"):
            for seq in task["seqs"]:
                ctx = fa.utils.NumpyContext(DT[d0])
                for step, dtname in enumerate(seq):
                    t = DT[dtname]
                    bad = False
                    for mode in ("scalar", "0-d-array"):
                        part["evaluations"] += 1
                        try:
                            with np.errstate(all="ignore"):
                                if mode == "scalar":
                                    got = [fn(ctx, t(v)) for v in pts]
                                    ref = [fn(fa.utils.NumpyContext(DT[d0]), t(v)) for v in pts]
                                else:
                                    got = [fn(ctx, np.array(v, dtype=t)) for v in pts]
                                    ref = [fn(fa.utils.NumpyContext(DT[d0]), np.array(v, dtype=t)) for v in pts]
                        except Exception as e:
                            bump(part, f"shared_context_raises:{type(e).__name__}")
                            continue
                        same = all(np.asarray(a).tobytes() == np.asarray(b).tobytes() for g_, r_ in zip(got, ref) for a, b in zip(g_, r_))
                        if step > 0:
                            part["nontrivial"] += 1
                        if not same:
                            add_violation(part, f"{label}:shared-context:{dtname}-after-{'+'.join(seq[:step]) or 'nothing'}:differs-from-fresh-context", f"NumpyContext({d0}) used for {seq[:step + 1]} ({mode} inputs): results for {dtname} differ from a fresh context: {got[0]} vs {ref[0]}", {"kind": "shared", "which": which, "d0": d0, "seq": list(seq)})
                            bad = True
                            break
                    if bad:
                        break
    part["samples"].append({"shared_context_sequences": [list(s) for s in task["seqs"][:2]]})
    return part


def hard_cases(dtname, which, seed, per_binade=3, estride=1):
    """Continued-fraction hard cases: for each binade exponent e, mantissas M < 2^p such that M*2^e is
    extremely close to an integer multiple of c (c = pi/2 or ln2)."""
    f = FMT[dtname]
    p = f["p"]
    c = consts(dtname)["pio2" if which == "trig" else "ln2"]
    out = []
    for e in range(f["emin"] - p + 1, f["emax"] - p + 2):
        if (e - seed) % estride:
            continue
        alpha = F(2) ** e / c  # x = M 2^e ; x / c = M alpha ~ N
        # continued fraction of alpha: convergents N_i / M_i
        a = alpha
        h0, h1 = 0, 1
        k0, k1 = 1, 0
        conv = []
        for _ in range(4000):
            ai = a.numerator // a.denominator
            h0, h1 = h1, ai * h1 + h0
            k0, k1 = k1, ai * k1 + k0
            if k1 >= (1 << p):
                break
            if k1 > 0:
                conv.append(k1)
            fracpart = a - ai
            if fracpart == 0:
                break
            a = 1 / fracpart
        for M in conv[-per_binade:]:
            # normalise so that the value is representable: M < 2^p always true here
            out.append((M, e))
    return out


def domain(dtname, which):
    t = DT[dtname]
    fi = np.finfo(t)
    if which == "exp":
        return float(np.log(fi.max.astype(np.float64)))
    return float(fi.max.astype(np.float64)) / 2 ** TRIG_J[dtname]


def w_points(task):
    fa = setup_repo_import()
    part = new_part()
    dtname = task["dtype"]
    t = DT[dtname]
    xs = np.array(task["bits"], dtype=np.uint64).astype(FMT[dtname]["ui"]).view(t)
    dom_e, dom_t = domain(dtname, "exp"), domain(dtname, "trig")
    got = {"exp": ([], []), "trig": ([], [])}
    for x in xs:
        if not np.isfinite(x):
            continue
        ax = abs(float(x))
        if "exp" in task["which"] and ax < dom_e:
            got["exp"][0].append(x)
            got["exp"][1].append(judge_exp(fa, part, dtname, x))
        if "trig" in task["which"] and ax <= dom_t:
            got["trig"][0].append(x)
            got["trig"][1].append(judge_trig(fa, part, dtname, x))
    for which, (pts, res) in got.items():
        if pts:
            compare_routes(fa, part, dtname, which, pts, res)
    if len(xs):
        part["samples"].append({"dtype": dtname, "which": task["which"], "x0": float(xs[0]).hex(), "n": int(len(xs))})
    return part


def neighbourhood_bits(dtname, centers, W):
    t = DT[dtname]
    c = np.array(centers, dtype=np.float64).astype(t)
    c = c[np.isfinite(c)]
    o = ordinal(c)
    omax = int(ordinal(np.array(np.finfo(t).max, dtype=t)))
    allo = np.unique(np.concatenate([o + d for d in range(-W, W + 1)]))
    allo = allo[np.abs(allo) <= omax]
    v = from_ordinal(allo, t)
    v = np.concatenate([v, -v])
    return np.unique(v.view(FMT[dtname]["ui"])).astype(np.uint64)


def run(run):
    thorough = run.tier == "thorough"
    tasks = []
    allb = np.arange(1 << 16, dtype=np.int64)
    for i in range(64):
        tasks.append(dict(dtype="float16", bits=allb[i::64].tolist(), which=["exp", "trig"]))
    for dtname in ("float32", "float64"):
        t = DT[dtname]
        f = FMT[dtname]
        c_ = consts(dtname)
        ln2, pio2 = float(c_["ln2"]), float(c_["pio2"])
        lat = lattice.binade_lattice(t, mantissas=8 if thorough else 4, estride=(1 if dtname == "float32" else 4) if thorough else (2 if dtname == "float32" else 8), ephase=run.seed % 2, seed=run.seed)
        bits = [lat.view(f["ui"]).astype(np.uint64)]
        kmax = int(domain(dtname, "exp") / ln2) + 1
        W = 64 if thorough else 8
        bits.append(neighbourhood_bits(dtname, [k * ln2 for k in range(0, kmax + 1)] + [(k + 0.5) * ln2 for k in range(0, kmax + 1)], W))
        # edges of the permitted remainder band: just outside |frac - 1/2| = 0.05 the only admissible k is the nearest
        # integer, so a rounding step of k that is displaced (a perturbed 1/ln2, a biased rounding) shows as |r+c| > 0.55 ln2
        # there and nowhere closer to (k+1/2)*ln2; plus a lattice of the fractional part for every k
        phis = [0.4495, 0.5505] + [j / 16 for j in range(1, 16)]
        bits.append(neighbourhood_bits(dtname, [(k + ph) * ln2 for k in range(0, kmax + 1) for ph in phis], 2 if thorough else 1))
        run.counters[f"exp_band_edge_points_{dtname}"] = f"(k+phi)*ln2, k<={kmax}, phi in 0.4495, 0.5505, j/16, +-{2 if thorough else 1} ULP, both signs"
        K = (1 << 10) if thorough else (1 << 8)
        kk = np.arange(0, K)
        run.counters[f"trig_neighbourhoods_{dtname}"] = f"k<{K}, +-{16 if thorough else 4} ULP"
        bits_trig = [neighbourhood_bits(dtname, (kk * pio2).tolist() + ((kk + 0.5) * pio2).tolist(), 16 if thorough else 4)]
        bits_trig.append(neighbourhood_bits(dtname, [(k + ph) * pio2 for k in range(0, K) for ph in (0.4495, 0.5505, 0.25, 0.75)], 1))
        # pi/4 transition
        bits_trig.append(neighbourhood_bits(dtname, [pio2 / 2], 64))
        hc = []
        for which in ("trig", "exp"):
            for M, e in hard_cases(dtname, which, run.seed, per_binade=3 if thorough else 2, estride=1 if (thorough or dtname == "float32") else 4):
                with np.errstate(all="ignore"):
                    v = np.ldexp(np.float64(M), e) if dtname == "float64" else np.float64(M) * 2.0 ** e
                hc.append(float(v))
        run.counters[f"hard_cases_{dtname}"] = len(hc)
        bits_trig.append(neighbourhood_bits(dtname, hc, 1))
        be = np.unique(np.concatenate(bits))
        bt = np.unique(np.concatenate(bits_trig))
        nsh = 96
        for i in range(nsh):
            tasks.append(dict(dtype=dtname, bits=[int(b) for b in be[i::nsh]], which=["exp", "trig"]))
            tasks.append(dict(dtype=dtname, bits=[int(b) for b in bt[i::nsh]], which=["trig", "exp"]))
    run.map(MOD, "w_points", tasks)
    import itertools

    dts = ("float16", "float32", "float64")
    seqs = [list(p) for n in (2, 3) for p in itertools.product(dts, repeat=n)]
    run.map(MOD, "w_shared_context", [dict(seqs=seqs[i::12]) for i in range(12)])
    run.rule = (
        "every finite float16 in the stated domains; float32/float64: all-binade mantissa lattice, complete +-W-ULP neighbourhoods of k*ln2 and "
        "(k+1/2)*ln2 for every k of the domain, of k*pi/2 and (k+1/2)*pi/2 for k < K, of pi/4, and continued-fraction hard cases (mantissas "
        "whose value is nearest to a multiple of pi/2 resp. ln2) for every binade; non-trivial = inputs with k != 0 (resp. N != 0)"
    )
    run.exhaustive = True
    run.coverage_extra["exhaustive_scope"] = "float16 complete; float32/float64 on the stated lattice"
    run.assumptions = ["mpmath ln2/pi at >= 10x the widest needed precision, converted to Fraction", "ULP criterion = ordinal distance between correctly rounded values, as in the package's own tests"]


def replay(case):
    fa = setup_repo_import()
    part = new_part()
    if case.get("kind") == "shared":
        part = w_shared_context(dict(seqs=[case["seq"]]))
        return [(v["sig"], v["msg"]) for v in part["violations"]]
    t = DT[case["dtype"]]
    x = t(float.fromhex(case["x"]))
    res = (judge_exp if case["kind"] == "exp" else judge_trig)(fa, part, case["dtype"], x)
    if case.get("route"):
        compare_routes(fa, part, case["dtype"], case["kind"], [x], [res])
    return [(v["sig"], v["msg"]) for v in part["violations"]]
