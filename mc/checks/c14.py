"""C14 — the ULP metric is the integer distance on the float lattice.

Enumerated (float16): every adjacent pair and every (x, x+k) chain for k <= K over *all* finite
patterns; all ordered pairs of an alphabet A (specials, every binade edge, all subnormal binades,
seeded fillers); monotone triples; both flush modes.  float32/float64: the same on the binade
lattices.  Complex: full product of a small component alphabet.
Oracle: mc.oracle.ordinal (signed lattice rank), and for flush mode a flush-ordinal model whose
map phi (subnormal -> 0 or +-smallest normal) must be monotone and is then applied consistently.
`ulp`: the identities stated in its docstring, against numpy.nextafter.
"""

from __future__ import annotations

import numpy as np

from mc import lattice
from mc.harness import add_violation, new_part, setup_repo_import
from mc.oracle import FMT, fmt_of, from_ordinal, ordinal

PROPERTY = "C14"
LEVEL = "exploration"
MOD = "mc.checks.c14"
DT = {"float16": np.float16, "float32": np.float32, "float64": np.float64}


def cls(x):
    if x == 0:
        return "zero"
    fi = np.finfo(type(x))
    return "subnormal" if abs(x) < fi.smallest_normal else "normal"


def flush_ord(v, dtname):
    """Model for flush mode: rank among {0, normals}; subnormals: below half the smallest normal
    -> 0, above -> +-1; exactly half is a tie for which either is accepted (returned as None)."""
    f = FMT[dtname]
    o = int(ordinal(np.asarray(v)))
    i = (1 << (f["p"] - 1)) - 1  # ordinal of the largest subnormal
    a = abs(o)
    if a > i:
        r = a - i
    else:
        half = (i + 1) // 2
        if a < half:
            r = 0
        elif a > half:
            r = 1
        else:
            return None
    return -r if o < 0 else r


def judge_pair(u, part, dtname, x, y, modes=("default", False, True)):
    ox, oy = int(ordinal(np.asarray(x))), int(ordinal(np.asarray(y)))
    want = abs(ox - oy)
    key = f"{cls(x)},{cls(y)}:{'same-sign' if (ox >= 0) == (oy >= 0) or ox == 0 or oy == 0 else 'cross-zero'}"
    case = {"kind": "pair", "dtype": dtname, "x": float(x).hex(), "y": float(y).hex()}
    for mode in modes:
        part["evaluations"] += 1
        try:
            if mode == "default":
                got = u.diff_ulp(x, y)
                got_r = u.diff_ulp(y, x)
            else:
                got = u.diff_ulp(x, y, flush_subnormals=mode)
                got_r = u.diff_ulp(y, x, flush_subnormals=mode)
        except Exception as e:
            add_violation(part, f"diff_ulp:raises:flush={mode}:{key}", f"diff_ulp({x!r},{y!r},flush={mode}) raised {type(e).__name__}: {e}", case)
            continue
        if got != got_r:
            add_violation(part, f"diff_ulp:asymmetric:flush={mode}:{key}", f"diff_ulp({x!r},{y!r})={got} but reversed {got_r}", case)
        if mode is True:
            fx, fy = flush_ord(x, dtname), flush_ord(y, dtname)
            if fx is None or fy is None:
                # tie at half the smallest normal: either collapse is accepted, but the choice must be
                # the one diff_ulp itself makes against zero (consistency)
                z = type(x)(0)
                if fx is None:
                    fx = int(u.diff_ulp(x, z, flush_subnormals=True)) * (-1 if ox < 0 else 1)
                    if abs(fx) not in (0, 1):
                        add_violation(part, f"diff_ulp:flush-tie:{key}", f"diff_ulp({x!r},0,flush)= {fx}", case)
                if fy is None:
                    fy = int(u.diff_ulp(y, z, flush_subnormals=True)) * (-1 if oy < 0 else 1)
            w = abs(fx - fy)
            if got != w:
                add_violation(part, f"diff_ulp:value:flush=True:{key}", f"diff_ulp({x!r},{y!r},flush_subnormals=True)={got}, flush-ordinal model gives {w}", case)
        else:
            if got != want:
                add_violation(part, f"diff_ulp:value:flush={mode}:{key}", f"diff_ulp({x!r},{y!r},flush={mode})={got}, lattice distance is {want}", case)
        if want == 0 and got != 0 or (want != 0 and got == 0 and mode is not True):
            add_violation(part, f"diff_ulp:zero-iff-equal:flush={mode}:{key}", f"diff_ulp({x!r},{y!r})={got}", case)
        # the derived metric: documented as diff_ulp(x, y).bit_length()
        try:
            gl = u.diff_log2ulp(x, y) if mode == "default" else u.diff_log2ulp(x, y, flush_subnormals=mode)
            if gl != int(got).bit_length():
                add_violation(part, f"diff_log2ulp:!=bit_length(diff_ulp):flush={mode}:{'distance>=2^53' if int(got) >= 2 ** 53 else 'distance<2^53'}", f"diff_log2ulp({x!r},{y!r},flush={mode})={gl}, diff_ulp = {got} has bit length {int(got).bit_length()}", case)
        except Exception as e:
            add_violation(part, f"diff_log2ulp:raises:flush={mode}", f"diff_log2ulp({x!r},{y!r}) raised {type(e).__name__}: {e}", case)
    if want:
        part["nontrivial"] += 1


def judge_ulp(u, part, dtname, x):
    t = DT[dtname]
    part["evaluations"] += 1
    case = {"kind": "ulp", "dtype": dtname, "x": float(x).hex()}
    c = cls(x)
    try:
        r = u.ulp(x)
        rn = u.ulp(-x)
    except Exception as e:
        add_violation(part, f"ulp:raises:{c}", f"ulp({x!r}) raised {type(e).__name__}: {e}", case)
        return
    if type(r) is not t:
        add_violation(part, f"ulp:type:{c}", f"ulp({x!r}) has type {type(r).__name__}", case)
        return
    if not (r == rn):
        add_violation(part, f"ulp:even:{c}", f"ulp({x!r})={r!r} != ulp(-x)={rn!r}", case)
    with np.errstate(all="ignore"):
        if x >= 0:
            ok = (x + r) == np.nextafter(x, t(np.inf))
            ident = "x+ulp(x)==nextafter(x,inf)"
        else:
            ok = (x - r) == np.nextafter(x, t(-np.inf))
            ident = "x-ulp(x)==nextafter(x,-inf)"
    if not ok:
        add_violation(part, f"ulp:nextafter-identity:{c}", f"{ident} fails for {dtname} x={x!r}: ulp={r!r}", case)
    part["nontrivial"] += 1 if x != 0 else 0


def w_chain(task):
    """every finite value x of the shard with its k-th neighbours, and ulp(x)."""
    fa = setup_repo_import()
    u = fa.utils
    part = new_part()
    dtname = task["dtype"]
    t = DT[dtname]
    vals = np.array(task["bits"], dtype=np.uint64).astype(FMT[dtname]["ui"]).view(t)
    omax = int(ordinal(np.array(np.finfo(t).max, dtype=t)))
    for x in vals:
        ox = int(ordinal(np.asarray(x)))
        judge_ulp(u, part, dtname, x)
        for k in task["ks"]:
            oy = ox + k
            if abs(oy) > omax:
                continue
            y = from_ordinal(oy, t)[()]
            judge_pair(u, part, dtname, x, y, modes=task["modes"])
    part["samples"].append({"chain": dtname, "x": float(vals[0]).hex() if len(vals) else None, "ks": task["ks"][:8]})
    return part


def w_pairs(task):
    fa = setup_repo_import()
    u = fa.utils
    part = new_part()
    dtname = task["dtype"]
    t = DT[dtname]
    A = np.array(task["alphabet_bits"], dtype=np.uint64).astype(FMT[dtname]["ui"]).view(t)
    rows = A[task["rows"][0]:task["rows"][1]]
    for x in rows:
        for y in A:
            judge_pair(u, part, dtname, x, y)
    # additivity along monotone triples (x <= y <= z in lattice order) of a sub-alphabet
    B = A[:: task["triple_stride"]]
    ob = ordinal(B)
    order = np.argsort(ob, kind="stable")
    B = B[order]
    r0, r1 = task["rows"]
    for i in range(len(B)):
        if not (r0 <= i * task["triple_stride"] < r1):
            continue
        for j in range(i, len(B)):
            for k in range(j, len(B), 3):
                part["evaluations"] += 1
                for mode in (False, True):
                    a = u.diff_ulp(B[i], B[j], flush_subnormals=mode)
                    b = u.diff_ulp(B[j], B[k], flush_subnormals=mode)
                    c = u.diff_ulp(B[i], B[k], flush_subnormals=mode)
                    if a + b != c:
                        add_violation(part, f"diff_ulp:additivity:flush={mode}", f"d({B[i]!r},{B[j]!r})+d({B[j]!r},{B[k]!r})={a}+{b} != d(x,z)={c}",
                                      {"kind": "triple", "dtype": dtname, "x": float(B[i]).hex(), "y": float(B[j]).hex(), "z": float(B[k]).hex()})
    if len(rows):
        part["samples"].append({"pairs_row": dtname, "x": float(rows[0]).hex(), "n_y": len(A)})
    return part


def w_complex(task):
    fa = setup_repo_import()
    u = fa.utils
    part = new_part()
    ct, ft, dtname = (np.complex64, np.float32, "float32") if task["dtype"] == "complex64" else (np.complex128, np.float64, "float64")
    A = np.array(task["alphabet_bits"], dtype=np.uint64).astype(FMT[dtname]["ui"]).view(ft)
    i0, i1 = task["rows"]
    for a in A[i0:i1]:
        for b in A:
            z1 = ct(complex(float(a), float(b)))
            for c in A:
                for d in A[:: task["stride"]]:
                    z2 = ct(complex(float(c), float(d)))
                    part["evaluations"] += 1
                    want = max(abs(int(ordinal(np.asarray(a))) - int(ordinal(np.asarray(c)))), abs(int(ordinal(np.asarray(b))) - int(ordinal(np.asarray(d)))))
                    got = u.diff_ulp(z1, z2, flush_subnormals=False)
                    if got != want:
                        add_violation(part, "diff_ulp:complex-max", f"diff_ulp({z1!r},{z2!r})={got}, max of component distances {want}",
                                      {"kind": "complex", "dtype": task["dtype"], "z1": [float(a).hex(), float(b).hex()], "z2": [float(c).hex(), float(d).hex()]})
                    part["nontrivial"] += 1 if want else 0
    return part


def alphabet(dtname, n, seed):
    t = DT[dtname]
    if dtname == "float16":
        lat = lattice.binade_lattice(t, mantissas=max(2, n // 64), seed=seed)
    else:
        lat = lattice.binade_lattice(t, mantissas=2, estride=max(1, (254 if dtname == "float32" else 2046) * 2 // max(n - 80, 1)), seed=seed)
    sp = lattice.specials(t, with_inf=False)
    nb = lattice.neighbours(sp, t, 2)
    bits = np.unique(np.concatenate([lat, sp, nb]).view(FMT[dtname]["ui"]))
    if len(bits) > n:
        # keep all specials/neighbours, thin the lattice regularly
        keep = np.unique(np.concatenate([sp, nb]).view(FMT[dtname]["ui"]))
        rest = np.setdiff1d(bits, keep)
        rest = rest[:: max(1, len(rest) // max(n - len(keep), 1) + 1)]
        bits = np.unique(np.concatenate([keep, rest]))
    return [int(b) for b in bits]


def run(run):
    thorough = run.tier == "thorough"
    tasks = []
    # chains over every finite float16
    v = np.arange(1 << 16, dtype=np.uint16)
    fin = v[np.isfinite(v.view(np.float16))].astype(np.int64)
    K = 64 if thorough else 16
    ks = list(range(-K, K + 1))
    for i in range(64):
        tasks.append(dict(dtype="float16", bits=fin[i::64].tolist(), ks=ks, modes=[False, True] if thorough else ["default", True]))
    for dtname in ("float32", "float64"):
        lat = lattice.binade_lattice(DT[dtname], mantissas=8 if thorough else 4, seed=run.seed)
        b = lat.view(FMT[dtname]["ui"]).astype(np.uint64)
        for i in range(32):
            tasks.append(dict(dtype=dtname, bits=[int(x) for x in b[i::32]], ks=[-3, -2, -1, 0, 1, 2, 3, 64, -1000], modes=[False, True]))
    run.map(MOD, "w_chain", tasks)
    nA = 2048 if thorough else 768
    tasks = []
    for dtname, n in (("float16", nA), ("float32", nA // 2), ("float64", nA // 2)):
        A = alphabet(dtname, n, run.seed)
        nsh = 64
        step = (len(A) + nsh - 1) // nsh
        for i in range(nsh):
            tasks.append(dict(dtype=dtname, alphabet_bits=A, rows=[i * step, min((i + 1) * step, len(A))], triple_stride=max(1, len(A) // (96 if thorough else 48))))
        run.counters[f"alphabet_{dtname}"] = len(A)
    run.map(MOD, "w_pairs", tasks)
    tasks = []
    for cdt, dtname in (("complex64", "float32"), ("complex128", "float64")):
        A = alphabet(dtname, 40, run.seed)[:: 2 if not thorough else 1]
        A = A[:24] if not thorough else A[:40]
        for i in range(len(A)):
            tasks.append(dict(dtype=cdt, alphabet_bits=A, rows=[i, i + 1], stride=2))
    run.map(MOD, "w_complex", tasks)
    run.rule = (
        f"float16: every finite pattern x with all neighbours x+k, |k|<={K}, and ulp(x); all ordered pairs and monotone triples of a "
        f"{nA}-value alphabet (all binades incl. subnormal ones, specials +-2 ULP); float32/float64: binade lattices with k in "
        "{+-1,+-2,+-3,64,-1000} and pair alphabets; complex: full product of a component alphabet; flush modes default/False/True. "
        "non-trivial = pairs at non-zero lattice distance"
    )
    run.exhaustive = True
    run.coverage_extra["exhaustive_scope"] = "neighbour chains and ulp(): all finite float16; pairs: complete product of the stated alphabets"
    run.assumptions = ["numpy.nextafter is the IEEE nextUp/nextDown", "ordinal = sign-magnitude integer view"]


def replay(case):
    fa = setup_repo_import()
    u = fa.utils
    part = new_part()
    k = case["kind"]
    if k == "pair":
        t = DT[case["dtype"]]
        judge_pair(u, part, case["dtype"], t(float.fromhex(case["x"])), t(float.fromhex(case["y"])))
    elif k == "ulp":
        t = DT[case["dtype"]]
        judge_ulp(u, part, case["dtype"], t(float.fromhex(case["x"])))
    elif k == "triple":
        t = DT[case["dtype"]]
        x, y, z = (t(float.fromhex(case[n])) for n in "xyz")
        for mode in (False, True):
            if u.diff_ulp(x, y, flush_subnormals=mode) + u.diff_ulp(y, z, flush_subnormals=mode) != u.diff_ulp(x, z, flush_subnormals=mode):
                add_violation(part, f"diff_ulp:additivity:flush={mode}", "additivity fails", case)
    elif k == "complex":
        ct, ft = (np.complex64, np.float32) if case["dtype"] == "complex64" else (np.complex128, np.float64)
        z1 = ct(complex(*(float.fromhex(h) for h in case["z1"])))
        z2 = ct(complex(*(float.fromhex(h) for h in case["z2"])))
        want = max(abs(int(ordinal(np.asarray(ft(z1.real)))) - int(ordinal(np.asarray(ft(z2.real))))), abs(int(ordinal(np.asarray(ft(z1.imag)))) - int(ordinal(np.asarray(ft(z2.imag))))))
        if u.diff_ulp(z1, z2, flush_subnormals=False) != want:
            add_violation(part, "diff_ulp:complex-max", "complex distance != max of components", case)
    return [(v["sig"], v["msg"]) for v in part["violations"]]
