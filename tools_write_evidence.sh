#!/bin/sh
# runs every registered check's quick tier (seed from $1, default 0) and writes evidence/<id>.json
cd /verif
for id in C16 C13 C14 C15 C10 C11 C12 C17 C19 C03 C02 C18 C07 C09 C06 C08 C04 C05 C01; do
  VERIF_SEED=${1:-0} timeout 1800 ./check $id --tier quick > /var/tmp/ev_$id.log 2>&1
  echo "$id rc=$? $(grep "^$id tier" /var/tmp/ev_$id.log | cut -c1-170)"
done
