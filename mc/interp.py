"""E2 — an independent interpreter of functional_algorithms expression DAGs.

Walks `kind` / `operands` only (no printer, no `props`, no static type inference of the package).
Back-end (a): vectorised NumPy in the dtype carried by the symbols; complex values are carried as
(re, im) pairs; `maximum`/`minimum` have the Python `max`/`min` semantics that the NumPy and Python
printers emit (`b if b > a else a`).  Optionally records every `select` condition (branch
signature) and per-node event flags (NaN produced, overflow, underflow).
"""

from __future__ import annotations

import numpy as np


class Cx:
    __slots__ = ("re", "im")

    def __init__(self, re, im):
        self.re = re
        self.im = im

    @property
    def dtype(self):
        return {np.dtype(np.float16): np.dtype(np.complex64), np.dtype(np.float32): np.dtype(np.complex64), np.dtype(np.float64): np.dtype(np.complex128)}[np.asarray(self.re).dtype]


NAMED = {
    "largest": lambda t: np.finfo(t).max,
    "smallest": lambda t: np.finfo(t).smallest_normal,
    "smallest_subnormal": lambda t: np.finfo(t).smallest_subnormal,
    "eps": lambda t: t(np.finfo(t).eps),
    "posinf": lambda t: t(np.inf),
    "neginf": lambda t: -t(np.inf),
    "pi": lambda t: t(np.pi),
    "nan": lambda t: t(np.nan),
}

UN = {
    "absolute": np.abs, "negative": np.negative, "positive": lambda a: +a, "sqrt": np.sqrt, "log": np.log, "log1p": np.log1p, "log2": np.log2,
    "log10": np.log10, "exp": np.exp, "exp2": np.exp2, "expm1": np.expm1, "sin": np.sin, "cos": np.cos, "tan": np.tan, "sinh": np.sinh,
    "cosh": np.cosh, "tanh": np.tanh, "asin": np.arcsin, "acos": np.arccos, "atan": np.arctan, "asinh": np.arcsinh, "acosh": np.arccosh,
    "atanh": np.arctanh, "sign": np.sign, "floor": np.floor, "ceil": np.ceil, "truncate": np.trunc, "square": np.square,
    "logical_not": np.logical_not, "is_finite": np.isfinite, "is_inf": np.isinf, "is_nan": np.isnan,
}
BIN = {
    "add": np.add, "subtract": np.subtract, "multiply": np.multiply, "divide": np.divide, "atan2": np.arctan2, "hypot": np.hypot,
    "lt": np.less, "le": np.less_equal, "gt": np.greater, "ge": np.greater_equal, "eq": np.equal, "ne": np.not_equal,
    "logical_and": np.logical_and, "logical_or": np.logical_or, "logical_xor": np.logical_xor, "copysign": np.copysign,
    "nextafter": np.nextafter, "pow": np.power, "remainder": np.remainder, "floor_divide": np.floor_divide,
    "maximum": lambda a, b: np.where(b > a, b, a),  # Python max(a, b)
    "minimum": lambda a, b: np.where(b < a, b, a),  # Python min(a, b)
}
UP = {np.dtype(np.float16): np.float32, np.dtype(np.float32): np.float64, np.dtype(np.float64): np.longdouble}
DOWN = {np.dtype(np.float32): np.float16, np.dtype(np.float64): np.float32, np.dtype(np.longdouble): np.float64}

SYMTYPE = {"float16": np.float16, "float32": np.float32, "float64": np.float64, "float": np.float64, "complex64": np.complex64, "complex128": np.complex128, "complex": np.complex128, "boolean": np.bool_, "integer": np.int64, "integer64": np.int64, "integer32": np.int32}


class Unsupported(Exception):
    pass


class Interp:
    def __init__(self, fa, graph, args=None):
        """graph: an `apply` expression, or any expression together with the list of argument symbols."""
        self.Expr = fa.Expr
        if args is None:
            assert graph.kind == "apply", graph.kind
            self.graph = graph
            self.args = list(graph.operands[1:-1])
            self.body = graph.operands[-1]
        else:
            self.graph = graph
            self.args = list(args)
            self.body = graph
        # topological order (iterative DFS, operands before users), deterministic
        order, seen = [], set()
        stack = [(self.body, False)]
        while stack:
            e, done = stack.pop()
            if done:
                order.append(e)
                continue
            if id(e) in seen:
                continue
            seen.add(id(e))
            stack.append((e, True))
            ops = [o for o in e.operands if isinstance(o, self.Expr)]
            if e.kind == "constant":
                ops = [o for o in e.operands[1:] if isinstance(o, self.Expr)]  # like only (value may live in the alt context)
            for o in reversed(ops):
                stack.append((o, False))
        self.order = order
        self.selects = [e for e in order if e.kind == "select"]

    # ------------------------------------------------------------------
    def run(self, *inputs, record_selects=False, record_flags=False, return_env=False):
        env = {}
        for a, v in zip(self.args, inputs):
            self._bind(env, a, v)
        flags = None
        if record_flags:
            n = np.asarray(inputs[0]).shape
            flags = dict(nan=np.zeros(n, bool), overflow=np.zeros(n, bool), underflow=np.zeros(n, bool))
        with np.errstate(all="ignore"):
            for e in self.order:
                if id(e) in env:
                    continue
                env[id(e)] = self._eval(e, env, flags)
        out = env[id(self.body)]
        res = self._export(out)
        extra = {}
        if record_selects:
            extra["selects"] = [np.asarray(env[id(s.operands[0])]) for s in self.selects]
        if record_flags:
            extra["flags"] = flags
        if return_env:
            extra["env"] = env
        return (res, extra) if extra else res

    def _export(self, out):
        if isinstance(out, Cx):
            re, im = np.asarray(out.re), np.asarray(out.im)
            z = np.empty(np.broadcast(re, im).shape, dtype=out.dtype)
            z.real = re
            z.imag = im
            return z
        if isinstance(out, list):
            return [self._export(o) for o in out]
        return out

    def _bind(self, env, a, v):
        if a.kind == "list":
            for ai, vi in zip(a.operands, v):
                self._bind(env, ai, vi)
            env[id(a)] = [env[id(ai)] for ai in a.operands]
            return
        v = np.asarray(v)
        if v.dtype.kind == "c":
            env[id(a)] = Cx(v.real.copy(), v.imag.copy())
        else:
            env[id(a)] = v

    def _dtype_of(self, val):
        if isinstance(val, Cx):
            return np.asarray(val.re).dtype.type, True
        return np.asarray(val).dtype.type, False

    def _eval(self, e, env, flags):
        k = e.kind
        if k == "symbol":
            # a free symbol that is not an argument: only used as a type carrier (`like`)
            tname = str(e.operands[1])
            t = SYMTYPE.get(tname)
            if t is None:
                raise Unsupported(f"symbol type {tname}")
            if np.dtype(t).kind == "c":
                ft = np.float32 if t is np.complex64 else np.float64
                return Cx(ft(0), ft(0))
            return t(0)
        if k == "constant":
            value, like = e.operands
            lv = env[id(like)]
            t, cx = self._dtype_of(lv)
            if isinstance(value, self.Expr):
                raise Unsupported("constant with alt-context value")
            if isinstance(value, str):
                f = NAMED.get(value)
                if f is None:
                    raise Unsupported(f"named constant {value}")
                if t is np.bool_ or np.dtype(t).kind in "iu":
                    raise Unsupported(f"named constant {value} of type {t}")
                c = f(t)
            elif isinstance(value, complex):
                return Cx(t(value.real), t(value.imag))
            elif isinstance(value, (bool, np.bool_)):
                c = np.bool_(value) if t is np.bool_ else t(value)
            else:
                c = t(value)
            return Cx(c, t(0)) if cx else c
        if k == "apply":
            return env[id(e.operands[-1])]
        ops = [env[id(o)] for o in e.operands]
        if k == "complex":
            a, b = np.asarray(ops[0]), np.asarray(ops[1])
            if a.dtype != b.dtype:  # the parts of a complex value share one type (the wider one)
                t = np.result_type(a.dtype, b.dtype)
                return Cx(a.astype(t), b.astype(t))
            return Cx(ops[0], ops[1])
        if k == "real":
            return ops[0].re if isinstance(ops[0], Cx) else ops[0]
        if k == "imag":
            if isinstance(ops[0], Cx):
                return ops[0].im
            raise Unsupported("imag of real")
        if k == "conjugate":
            return Cx(ops[0].re, -ops[0].im) if isinstance(ops[0], Cx) else ops[0]
        if k == "select":
            c, a, b = ops
            if isinstance(a, Cx) or isinstance(b, Cx):
                a = a if isinstance(a, Cx) else Cx(a, np.zeros_like(a))
                b = b if isinstance(b, Cx) else Cx(b, np.zeros_like(b))
                return Cx(np.where(c, a.re, b.re), np.where(c, a.im, b.im))
            if isinstance(a, list):
                return [np.where(c, x, y) for x, y in zip(a, b)]
            return np.where(c, a, b)
        if k == "list":
            return list(ops)
        if k == "item":
            idx = ops[1]
            return ops[0][int(idx)]
        if any(isinstance(o, Cx) for o in ops):
            if k == "negative":
                return Cx(-ops[0].re, -ops[0].im)
            if k == "positive":
                return ops[0]
            raise Unsupported(f"{k} with complex operand (graph not expanded)")
        if k in UN:
            r = UN[k](ops[0])
        elif k in BIN:
            r = BIN[k](ops[0], ops[1])
        elif k == "upcast":
            r = np.asarray(ops[0]).astype(UP[np.asarray(ops[0]).dtype])
        elif k == "downcast":
            r = np.asarray(ops[0]).astype(DOWN[np.asarray(ops[0]).dtype])
        else:
            raise Unsupported(k)
        if flags is not None:
            ra = np.asarray(r)
            if ra.dtype.kind == "f":
                oa = [np.asarray(o) for o in ops if np.asarray(o).dtype.kind == "f"]
                fi = np.finfo(ra.dtype)
                flags["nan"] |= np.isnan(ra)
                anyinf = np.zeros(ra.shape, bool)
                for o in oa:
                    anyinf = anyinf | np.isinf(o)
                flags["overflow"] |= np.isinf(ra) & ~anyinf
                if k in ("divide", "remainder", "floor_divide") and len(oa) == 2:
                    flags["overflow"] |= np.broadcast_to(oa[1] == 0, ra.shape)  # IEEE divide-by-zero event (also inf/0)
                sub = (ra != 0) & (np.abs(ra) < fi.smallest_normal)
                if k in ("multiply", "divide", "square", "sqrt") and oa:
                    nz = np.ones(ra.shape, bool)
                    for o in (oa[:1] if k in ("divide", "square", "sqrt") else oa):
                        nz = nz & (o != 0)
                    sub = sub | ((ra == 0) & nz)
                flags["underflow"] |= sub
        return r
