"""E4 — "the generated implementation with all complex sub-operations expanded by the package's own
definitions".

`Context(paths=[fa.algorithms])`, `ctx.trace(f, dtype)`, then `graph.rewrite(EXPAND, fa.rewrite)` where
EXPAND's modifier calls the package's own `targets.base.modifier_base` (with a target that declares
no native kinds) for every node that has a complex operand and for hypot / square /
asin_acos_kernel.  What remains are real primitives plus complex/real/imag/select plumbing.
"""

from __future__ import annotations

from mc.harness import quiet

STRUCTURAL = {"symbol", "constant", "apply", "complex", "real", "imag", "select", "list", "item", "conjugate"}
ALWAYS = {"hypot", "square", "asin_acos_kernel"}


class _NoNatives:
    __name__ = "mc.expand"
    kind_to_target = {}


def make_modifier(fa):
    from functional_algorithms.targets.base import modifier_base

    Expr = fa.Expr

    memo = {}
    REAL_RESULT = {"real", "imag", "absolute", "lt", "le", "gt", "ge", "eq", "ne", "is_finite", "is_inf", "is_nan", "is_posinf", "is_neginf",
                   "is_negzero", "atan2", "hypot", "logical_and", "logical_or", "logical_not", "logical_xor", "item", "len", "list", "dtype_index"}

    def is_cx(e):
        """complex-valuedness by structure only (symbol types, `complex` nodes, propagation)."""
        k = id(e)
        if k in memo:
            return memo[k]
        if e.kind == "symbol":
            r = "complex" in str(e.operands[1])
        elif e.kind == "constant":
            r = isinstance(e.operands[0], complex) or is_cx(e.operands[1])
        elif e.kind == "complex":
            r = True
        elif e.kind in REAL_RESULT:
            r = False
        elif e.kind == "select":
            r = is_cx(e.operands[1]) or is_cx(e.operands[2])
        elif e.kind == "apply":
            r = is_cx(e.operands[-1])
        else:
            r = any(isinstance(o, Expr) and is_cx(o) for o in e.operands)
        memo[k] = r
        return r

    def modifier(expr):
        if expr.kind in STRUCTURAL:
            return expr
        cx = any(isinstance(o, Expr) and is_cx(o) for o in expr.operands)
        if cx or expr.kind in ALWAYS:
            return modifier_base(NS, expr)
        return expr

    class NS:
        """a 'target' that declares no native kinds: modifier_base expands everything through Context paths"""

        __name__ = "mc.expand"
        kind_to_target = {}
        __rewrite_modifier__ = staticmethod(modifier)

    return NS


def expanded_graph(fa, name, dtype, nargs=1, simplify=True, ctx=None, parameters=None):
    """Trace algorithms.<name> for `dtype` arguments and expand. Returns the apply-graph.  `ctx`: an existing Context to
    trace in (histories on one shared Context); default a fresh one."""
    with quiet():
        if ctx is None:
            ctx = fa.Context(paths=[fa.algorithms], parameters=dict(parameters) if parameters else None)
        g = ctx.trace(getattr(fa.algorithms, name), *([dtype] * nargs))
        ns = make_modifier(fa)
        g2 = g.rewrite(ns, fa.rewrite) if simplify else g.rewrite(ns)
    return g2


def numpy_graph(fa, name, dtype, nargs=1):
    """The shipped pipeline (as in tests / results/update.py): NumPy natives where declared."""
    with quiet():
        ctx = fa.Context(paths=[fa.algorithms])
        g = ctx.trace(getattr(fa.algorithms, name), *([dtype] * nargs))
        return g.rewrite(fa.targets.numpy, fa.rewrite)


def kinds_of(graph):
    seen = {}
    stack = [graph]
    Expr = type(graph)
    while stack:
        e = stack.pop()
        if id(e) in seen:
            continue
        seen[id(e)] = e
        for o in e.operands:
            if isinstance(o, Expr):
                stack.append(o)
    out = {}
    for e in seen.values():
        out[e.kind] = out.get(e.kind, 0) + 1
    return out, len(seen)
