"""E3 — exact references, independent of functional_algorithms.utils.

Formats are described by (p, emin, emax): p significand bits (incl. hidden), emin the exponent of
the smallest normal (value 2**emin), emax the exponent of the largest binade.
"""

from __future__ import annotations

from fractions import Fraction

import numpy as np

FMT = {
    "float16": dict(p=11, emin=-14, emax=15, np=np.float16, ui=np.uint16, si=np.int16, bits=16),
    "float32": dict(p=24, emin=-126, emax=127, np=np.float32, ui=np.uint32, si=np.int32, bits=32),
    "float64": dict(p=53, emin=-1022, emax=1023, np=np.float64, ui=np.uint64, si=np.int64, bits=64),
}


def fmt_of(dtype):
    return FMT[np.dtype(dtype).name]


def name_of(dtype):
    return np.dtype(dtype).name


# ---------------------------------------------------------------- bit patterns <-> exact values


def decode(bits: int, fmt) -> Fraction | str:
    """Exact value of an IEEE bit pattern by integer decoding (no float arithmetic)."""
    f = FMT[fmt] if isinstance(fmt, str) else fmt
    p, emin, nb = f["p"], f["emin"], f["bits"]
    sign = -1 if (bits >> (nb - 1)) & 1 else 1
    ebits = nb - p  # exponent field width
    e = (bits >> (p - 1)) & ((1 << ebits) - 1)
    m = bits & ((1 << (p - 1)) - 1)
    if e == (1 << ebits) - 1:
        return "nan" if m else ("-inf" if sign < 0 else "inf")
    if e == 0:
        return Fraction(sign * m) * Fraction(2) ** (emin - (p - 1))
    return Fraction(sign * ((1 << (p - 1)) + m)) * Fraction(2) ** (e - 1 + emin - (p - 1))


def frac(x) -> Fraction:
    """Exact value of a finite NumPy/Python float (float16/32 convert exactly to double)."""
    return Fraction(float(x))


def rn_parts(q: Fraction, fmt):
    """Round-to-nearest-even of an exact rational into the format.
    Returns ('zero', sign) | ('inf', sign) | ('fin', Fraction value)."""
    f = FMT[fmt] if isinstance(fmt, str) else fmt
    p, emin, emax = f["p"], f["emin"], f["emax"]
    if q == 0:
        return ("zero", 1)
    sign = -1 if q < 0 else 1
    a = -q if q < 0 else q
    # exponent e with 2**e <= a < 2**(e+1)
    e = a.numerator.bit_length() - a.denominator.bit_length()
    if Fraction(2) ** e > a:
        e -= 1
    elif Fraction(2) ** (e + 1) <= a:
        e += 1
    e = max(e, emin)
    quantum = Fraction(2) ** (e - (p - 1))
    n = a / quantum
    fl = n.numerator // n.denominator
    rem = n - fl
    if rem > Fraction(1, 2) or (rem == Fraction(1, 2) and (fl & 1)):
        fl += 1
    v = fl * quantum
    if v >= Fraction(2) ** (emax + 1):
        return ("inf", sign)
    if v == 0:
        return ("zero", sign)
    return ("fin", sign * v)


def rn(q: Fraction, fmt):
    """Round to nearest even, returned as a NumPy scalar of the format (signed zero / inf kept)."""
    f = FMT[fmt] if isinstance(fmt, str) else fmt
    t = f["np"]
    kind, v = rn_parts(q, f)
    if kind == "zero":
        return t(0.0) if v > 0 else -t(0.0)
    if kind == "inf":
        return t(np.inf) if v > 0 else t(-np.inf)
    # v is representable in the format, hence in float64: the conversions below are exact
    return t(float(v))


# ---------------------------------------------------------------- ordinals (signed lattice rank)


def ordinal(x):
    """Signed rank of floats in their lattice; +0 and -0 both map to 0; works on arrays/scalars.
    ULP distance between finite same-type floats = |ordinal(a) - ordinal(b)|."""
    a = np.asarray(x)
    f = fmt_of(a.dtype)
    u = a.view(f["ui"]).astype(np.int64) if f["bits"] < 64 else a.view(np.uint64)
    if f["bits"] < 64:
        mag = u & ((1 << (f["bits"] - 1)) - 1)
        neg = (u >> (f["bits"] - 1)) & 1
        return np.where(neg == 1, -mag, mag)
    mag = (u & np.uint64((1 << 63) - 1)).astype(np.int64)
    neg = (u >> np.uint64(63)).astype(np.int64)
    return np.where(neg == 1, -mag, mag)


def ordinal1(x) -> int:
    return int(ordinal(x))


def from_ordinal(o, dtype):
    """Inverse of ordinal (0 -> +0)."""
    f = fmt_of(dtype)
    o = np.asarray(o, dtype=np.int64)
    mag = np.abs(o).astype(f["ui"])
    signbit = f["ui"](1) << f["ui"](f["bits"] - 1)
    bits = np.where(o < 0, mag | signbit, mag).astype(f["ui"])
    return bits.view(f["np"])


def ulp_distance_to_exact(value, q: Fraction, fmt) -> Fraction:
    """Distance of a finite float `value` from the exact rational q, in units of ulp(RN(q))
    (the spacing of the format at the correctly rounded result; subnormal spacing below emin)."""
    f = FMT[fmt] if isinstance(fmt, str) else fmt
    p, emin = f["p"], f["emin"]
    kind, v = rn_parts(q, f)
    if kind == "fin":
        a = abs(v)
        e = a.numerator.bit_length() - a.denominator.bit_length()
        if Fraction(2) ** e > a:
            e -= 1
        e = max(e, emin)
    elif kind == "zero":
        e = emin
    else:
        e = f["emax"]
    quantum = Fraction(2) ** (e - (p - 1))
    return abs(frac(value) - q) / quantum


# ---------------------------------------------------------------- all patterns of a small format


def all_float16(include_nan=False, include_inf=True):
    bits = np.arange(1 << 16, dtype=np.uint16)
    v = bits.view(np.float16)
    keep = np.ones(v.shape, bool)
    if not include_nan:
        keep &= ~np.isnan(v)
    if not include_inf:
        keep &= ~np.isinf(v)
    return v[keep]


def selftest():
    """Float16-exhaustive comparison of rn/decode/ordinal with NumPy casts and nextafter."""
    v = all_float16(include_inf=False)
    n = 0
    for x in v:
        b = int(x.view(np.uint16))
        q = decode(b, "float16")
        assert q == Fraction(float(x)), (b, q, float(x))
        r = rn(q, "float16")
        assert r.view(np.uint16) == b or (q == 0), (b, r)
        n += 1
    o = ordinal(v)
    s = np.sort(v.astype(np.float64))
    # ordinals strictly increase with value except at the merged zero
    order = np.argsort(o, kind="stable")
    vs = v[order].astype(np.float64)
    assert np.all(np.diff(vs) >= 0)
    assert np.all(from_ordinal(o, np.float16).astype(np.float64) == v.astype(np.float64))
    # midpoints: RN of the midpoint of two neighbours is the even one
    fin = np.sort(np.unique(v.astype(np.float64)))
    for i in range(0, len(fin) - 1, 7):
        a, b = Fraction(fin[i]), Fraction(fin[i + 1])
        mid = (a + b) / 2
        r = rn(mid, "float16")
        assert float(r) in (fin[i], fin[i + 1])
        assert int(abs(r).view(np.uint16)) % 2 == 0, (fin[i], fin[i + 1], r)
        assert float(np.float16(np.float64(float(mid)))) == float(r)
    return n
