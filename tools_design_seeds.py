#!/usr/bin/env python3
"""Regenerates section 12 of DESIGN.md (the mutation-campaign table) from tools_seed_meta.T and /verif/seeded."""
import importlib.util
import os

spec = importlib.util.spec_from_file_location("tsm", "/verif/tools_seed_meta.py")
m = importlib.util.module_from_spec(spec)
spec.loader.exec_module(m)
T = m.T
names = sorted(n for n in os.listdir("/verif/seeded") if os.path.isdir(os.path.join("/verif/seeded", n)))
rows = []
first = missed = 0
for n in names:
    what, needs, ok, strengthened = T.get(n, ("", "", True, ""))
    if n.startswith("C05-m1-"):
        status = "not judged (see below)"
    elif ok:
        status = "caught as built"
        first += 1
    else:
        status = "missed at first; caught after: " + strengthened
        missed += 1
    rows.append(f"| `{n}` | {what} | {needs} | {status} |")
table = "\n".join(rows)
try:
    ncaught = sum(1 for line in open("/verif/seeded/VERIFY.log") if " CAUGHT " in line)
except OSError:
    ncaught = "?"
text = f'''## 12. Seeded changes (mutation campaign)

Fresh sub-agents were given only the text of one property and a scratch git worktree of /repo under /tmp (nothing from
/verif), and asked for realistic changes that break the property, keep the package importable and the existing tests
green, and need something specific to manifest.  Six waves: two changes per property (19 agents), then three changes
each in a different function for eleven, eight, nine and seven properties (later agents were told which *sites* had been
used, nothing else; the fifth wave was time-boxed to an hour per agent), and a sixth, 20-minute wave of two changes each for
C12, C13, C14, C15 and C17 (ten changes: one was rejected because the package tests fail with it, five repeated the site
and effect of an earlier seed and were caught as built but not kept a second time, four were kept: two caught as built,
two missed and answered by C15 instance-reuse histories and C17 band-edge points);
a last 9-minute request for one change each to C13 and C15, told the sites already used, gave one more C15 change (caught as
built) and, for C13, no change that survives the package tests (the agent's report lists five candidate slips that are either
behaviour-preserving or caught by test_utils.py)).  Every change was confirmed by me before it was kept (`tools_confirm_seed.sh`: demo passes on the clean
tree and fails with the patch, in the agent's worktree; the named package tests pass with the patch in a scratch export of
/repo HEAD under /var/tmp; the property's check is run with `FA_REPO` pointing at that export; the export is removed).
Nothing was ever applied to /repo itself.  Each kept change lives in `/verif/seeded/<id>/` (`patch.diff`, `demo.py`, the
agent's `notes.md`, `confirm.txt`, `meta.json`, optionally `checks.txt` = the checks expected to see it when that is not
the check of its own property); `tools_verify_seeds.sh` re-runs all of them against the committed checks.

{len(names)} changes kept; {first} were caught by the checks as they stood when the change arrived, {missed} were missed
at first (or would have been: for a few I strengthened the check on reading the agent's report, before running it) and
are caught after the strengthening named in the table; one is deliberately not judged.  `seeded/VERIFY.log` is the
last complete `tools_verify_seeds.sh` run over the first 142, with the lines of the five later seeds (run singly against
the committed checks) appended ({ncaught} CAUGHT, the not-judged one MISSED).

| seed | change | needs | result |
|---|---|---|---|
{table}

**Not judged: `C05-m1-cpp-sign-literal-zero`.**  The change makes the C++ `sign` template return +0 for a -0 operand.
On the pinned tree the Python and NumPy templates and the rewriter's constant folding already give +0 for `sign(-0.0)`
while the C++ template gives -0: the property does not say which is "the graph's" value, so a check that demanded
either would alarm on code for which the property can be read to hold.  C05 therefore masks exactly the rows in which a
`sign` node sees a zero; every other effect of a changed `sign` template is judged.

**What the misses had in common** (and what was changed in response, beyond the single seed):
* *inputs off the lattice*: values the rewriter folds away (+-1), constants inexact in the narrow type, overlapping
  expansions, moduli within an ULP of 1, operands equal to the largest subnormal / largest finite value, zero bounds ->
  new scopes and lattices (C04 T/L/F/Z, C12 general lists and size limits, C01 unit-modulus lattice, C10
  package-derived constants, C19 zero bounds);
* *usage modes other than the one the unit tests use*: one Context / NumpyContext / parameters dict shared by several
  requests, 0-d arrays and traced expressions instead of NumPy scalars, two register objects, list arguments, like-less
  literals, types given as strings, arguments of different float types, a narrow ambient mpmath precision, documented
  Context parameters, user definitions registered between requests -> history families on shared objects (C01, C02,
  C05, C09, C10, C11, C17), second and third routes (C10, C17), C07 family F3, C18 second register object, C03 parameter
  variants, C13 ambient precision, C15 mixed argument types, C15 one backend instance across float types;
* *a lattice centred on the implementation's own decision point instead of the specification's limit*: C17's
  neighbourhoods sat at (k+1/2) ln2, where the code switches k, while the statement's bound is violated first at the edge
  of the permitted band -> points just outside frac = 0.45 / 0.55 for every k;
* *kinds, templates and options outside the hand-written program alphabets* -> C05/C06 take their kinds from the targets'
  own tables as well; C08 forces a variable for every node; C12 `fix_overflow`; C16 user schemes and number operands;
  C14 the derived log2 metric;
* *a known-finding glob that was too wide* (C11 overflow fallback, C06 constant-value, C01 magnitude) -> split by failure
  class.  Two of these globs had also been hiding mistakes of my own harness.
The campaign also surfaced eight further genuine defects of the pinned tree (section 10.1, commits 7feb67f ... 89980ae)
and two more known findings (C01 log1p near z = -2; C15 mixed argument types).
'''
s = open("/verif/DESIGN.md").read()
i = s.index("## 12. Seeded changes (mutation campaign)")
s = s[:i] + text
open("/verif/DESIGN.md", "w").write(s)
print(len(names), first, missed)
