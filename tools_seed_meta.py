#!/usr/bin/env python3
"""Writes /verif/seeded/<name>/meta.json for every seeded change from the hand-written table below plus the seed's
confirm.txt (what was run when the change was confirmed) and, if present, the last tools_verify_seeds.sh log given as
argv[1] (CAUGHT/MISSED per seed on the current tree)."""
import json
import os
import re
import sys

SEEDED = os.path.join(os.path.dirname(os.path.abspath(__file__)), "seeded")

# name -> (what the change is, what it needs in order to manifest, caught at first try?, what was strengthened)
T = {
    "C01-m1-asin-kernel-x-le-one": ("asin_acos_kernel: `x < one` -> `x <= one` in one of two identical selectors", "|Re z| == 1 exactly and 0 < |Im z| < 4*sqrt(smallest normal) (complex64/128); asin/acos imag part, acosh/asinh real part", True, ""),
    "C01-m2-complex-exp-overflow-order": ("complex_exp: e2*cs*e2 -> e2*e2*cs in the real part only", "Re z just above log(largest) with |cos(Im z)| small enough that exp(x)*cos(y) is finite", True, ""),
    "C02-m1-asin-one-minus-square": ("real_asin: sqrt((1-x)*(1+x)) -> sqrt(1-x*x)", "|x| in a thin band below 1 (float32 0.9985..0.9999, float64 1-2^-12..1-2^-32); endpoints unchanged", True, ""),
    "C02-m2-acosh-log1p-ungrouped": ("real_acosh: log1p(sqxm1*(sqxp1+sqxm1)) -> log1p(sqxm1*sqxp1 + x - one)", "1 < x < ~1.03", True, ""),
    "C03-m1-sqrt-ax-eq-y": ("complex_sqrt: `ax == ay` -> `ax == y` in one of two parallel selects", "|Re z| == |Im z| exactly with Im z < 0", True, ""),
    "C03-m2-log1p-region-signed-y": ("complex_log1p: region test `axp1 + ay < 0.2` -> `axp1 + y < 0.2`", "Im z < 0 with |Im z| > |Re z + 1| - 0.2, magnitudes about 2^-4..2^4", True, ""),
    "C04-m1-nonpositive-add-nonnegatives": ("Expr._is_nonpositive: sum of two non-negative terms inferred strictly positive", "a comparison of (nonneg + nonneg) with 0 (or a signed expression), evaluated where both addends are exactly 0", False, "C04 scope T: every operation over two sign-definite operands compared with 0 and sign-definite values"),
    "C04-m2-logical-and-absorb-returns-x": ("Rewriter.logical_and: `P and (P and Q)` returns P instead of (P and Q)", "the left operand re-occurs by identity inside a nested conjunction on the right, P true and Q false", False, "C04 scope L: every and/or/xor/not tree of depth <= 2 over shared atoms, selects on them, nested selects"),
    "C05-m1-cpp-sign-literal-zero": ("C++ sign template returns the literal 0 for a zero operand (sign(-0.0) = +0.0 instead of -0.0)", "C++ target, compiled and executed, operand of sign exactly -0.0", False, "NOT judged by design: the sign of sign(+-0) is not fixed by the property (the Python and NumPy templates and the rewriter's constant folding give +0, the C++ template -0 on the pinned tree); C05 masks rows where a sign node sees a zero. The work on this seed produced the libm-backed C++ reference (every real-argument graph is now executed)."),
    "C05-m2-argument-cast-reads-ref": ("PrinterBase.init_arguments casts a.ref instead of a (NumPy: `_x_0_ = numpy.float64(_x_0_)`)", "one Context traced+emitted twice with the same parameter names in different dtypes", False, "C05 Context-reuse histories (sequences of trace+emit requests on one Context, depth 2 quick / 3 thorough)"),
    "C05-m3-numpy-upcast-float64-noop": ("numpy upcast table: float64 -> float64 (no-op) instead of float128", "a graph with upcast on a float64 operand (use_upcast_* options)", False, "C05 precision-change programs (upcast/downcast shapes) in the lattice"),
    "C06-m1-stablehlo-xor-as-or": ("stablehlo table: logical_xor rendered as StableHLO_OrOp", "a graph with a logical_xor node on the stablehlo target", True, ""),
    "C06-m2-xla-pow-operands-reversed": ("xla_client table: Pow({1}, {0})", "a genuine pow node (not x**2 / x**0.5) on the xla_client target", True, ""),
    "C07-m1-longdouble-constant-key": ("constant key uses repr(_aspython(value)): numpy.longdouble/clongdouble neighbours collapse", "two longdouble constants that differ below double precision, same like operand", False, "C07 alphabet: neighbouring NumPy-scalar constants of every width (x87 padding masked in the reference term)"),
    "C07-m2-symbol-name-in-parent-key": ("Expr._two_level_intkey identifies a symbol operand by its name only", "two symbols with the same name and different types as operands of the same kind of parent in one Context", True, ""),
    "C08-m1-type-max-complex-widening-self-only": ("Type.max widens a complex result only when *self* is the complex operand", "complex64 op float64 in that operand order (add, subtract, multiply, divide, pow, select)", True, ""),
    "C08-m2-gettype-abs-of-select": ("Expr.get_type of abs/real/imag tests the operand's per-kind is_complex instead of its type", "abs/real/imag applied directly to a select whose true branch is real and false branch complex", True, ""),
    "C09-m1-toidentifier-untyped-cache": ("toidentifier memoised with an untyped lru_cache", "an unnamed non-integer dyadic constant used twice, generated for float32 after an equal float/float64 constant was named in the same process", False, "C09 catalogue: synthetic definitions (repeated unnamed constants, named references in ctx.call scopes), all ordered pairs among them"),
    "C09-m2-lax-same-dtype-set-order": ("lax printer iterates the same-dtype set (hash order) when emitting promote_args_inexact", "lax target, >= 3 arguments in one same-dtype group (apmath.fma), PYTHONHASHSEED in {1,2,4,6,...}", False, "C09 catalogue: lax table, the six tools/generate_apmath_lax.py entries, synthetic 3-argument definition; hash-seed runs cover them"),
    "C10-m1-fix-overflow-ge-largest": ("add_2sum fix_overflow guard `abs(z) > largest` -> `>=`", "fix_overflow=True and the intermediate z = (x+y)-x exactly equal to +-largest (nothing overflowed)", True, ""),
    "C10-m2-float16-veltkamp-constant-in-algorithms": ("algorithms.get_veltkamp_splitter_constant: float16 constant 2^5+1 instead of 2^6+1", "float16 through the inlined copies used by complex log/log1p", False, "C10 takes the splitter constant from the package's own derivations (algorithms/utils) instead of its own"),
    "C11-m1-mul-dekker-overflow-guard-no-abs": ("mul_dekker fix_overflow guard loses abs(): fires only for +inf", "negative product close to -largest with fix_overflow=True: fma returns -inf/nan", False, "C11 separates `non-finite result where the fallback should be finite` from the recorded inexact-fallback finding (the known-finding glob had hidden it)"),
    "C11-m2-is-power-of-two-machep": ("_is_power_of_two_parameters uses machep instead of negep", "default-constant call path and x = +-3*2^k", True, ""),
    "C12-m1-square-drops-last-antidiagonal": ("apmath.square loop bound off by one: last anti-diagonal dropped", "overlapping (not normal-form) input lists, e.g. square([1, 1]) = 3", False, "C12 arithmetic on arbitrary (overlapping, unordered, zero-containing) lists"),
    "C12-m2-renormalize-max-size-table": ("renormalize max_size table 4/12/40 -> 3/11/39", "results that need the maximal number of terms of the dtype (span the whole exponent range)", True, ""),
    "C13-m1-float2bin-negzero-sign": ("float2bin zero branch uses the `f >= 0` sign", "input exactly -0.0, compared bitwise", True, ""),
    "C13-m2-float2mpf-context-precision": ("float2mpf rounds the significand to the mpmath context precision", "mpmath context precision below the float type's precision (float64)", False, "C13 context precisions p//2 and p-1 (which exposed and led to the repair of a float16/float32 defect, f2eef96)"),
    "C14-m1-diff-ulp-flush-ge-largest-subnormal": ("diff_ulp flush remapping `>` -> `>=` at the largest subnormal", "flush_subnormals=True and an operand equal to the largest subnormal", True, ""),
    "C14-m2-ulp-subnormal-clamp-offbyone": ("utils.ulp exponent clamp loses +1", "subnormal argument", True, ""),
    "C15-m1-float64-minexp-flush": ("vectorize_with_mpmath float_minexp float64 -1021 -> -1022", "float64, flush_subnormals=True, result in the top subnormal binade", True, ""),
    "C15-m2-vfunc-cache-key-without-values": ("numpy_with_mpmath function cache keyed by option names only", "two namespaces with different option values created in one process, same function name", True, ""),
    "C16-m1-divmod-skip-offbyone": ("polynomial.divmod: `len(R) < len(D) - k` -> `len(R) < len(D) - k - 1` (remainder-has-no-term-of-this-degree test)", "a division step where the running remainder lost exactly one more leading term than expected (cancelling leading coefficients)", True, ""),
    "C16-m2-taylorat-skip-zero": ("polynomial.taylorat: the skip-zero-coefficient guard also skips the power update z0e *= z0", "a polynomial with an interior zero coefficient and z0 not in {0, 1}", True, ""),
    "C18-m1-shared-mxcsr-buffer": ("MXCSRRegister.get_mxcsr returns one shared c_uint32 buffer (allocated once) instead of a fresh one", "two contexts of the same register object alive at once: the saved value of the outer one is an alias overwritten by the inner enter", True, ""),
    "C18-m2-rn-mask-clears-fz": ("rounding-control field cleared with a 3-bit mask (also clears FZ, bit 15)", "a context that requests only a rounding mode while FZ is set (entered inside an FZ context or with FZ set by the caller)", True, ""),
    "C19-m1-negzero-lower-bound": ("real_samples: abs() dropped on the lower bound in the min_value >= 0 branch", "min_value = -0.0 (bit pattern 0x80..0 used as start ordinal)", True, ""),
    "C19-m2-complex-pair-imag-bound-index": ("complex_pair_samples takes the imaginary bound of the second operand from the wrong tuple index", "per-operand bounds that differ between operands", False, "C19 per-operand (tuple) bounds for real_pair/triple, complex and complex_pair samples"),

    # ---- second wave (three changes per property, each in a different function)
    "C17-m1-ln2-constants-cached-on-context": ("get_log2_doubleword_and_inverse caches its constants on the context object, ignoring the dtype-selecting argument", "one NumpyContext used for several float types, narrower type first", False, "C17 histories on one shared NumpyContext (all dtype sequences of length 2 and 3, scalar and 0-d array inputs) compared with fresh-context results"),
    "C17-m2-trig-select-fp16-t-is-r": ("argument_reduction_trigonometric: type-generic select returns fp16_r for t", "float16 input that is not a NumPy scalar (0-d array / traced expression): the type-generic path", False, "C17 second and third route to the same functions: 0-d arrays through NumpyContext (type-generic path) and the traced+emitted NumPy function, bit-compared with the scalar route"),
    "C01-m3-sqrt-overflow-fallback-r-for-sqrt-r": ("complex_sqrt overflow fallback uses r where sqrt(r) belongs", "|x| in the top half binade with x^2+y^2 > largest^2 and |x| > |y|", True, ""),
    "C01-m4-fast2sum-compensation-sign": ("algorithms.add_2sum fast branch: t = z - y instead of y - z", "complex log with |z| within a few ULP of 1", False, "C01 unit-modulus lattice: |z| and |1+z| within 2 ULP of 1 (which also surfaced the recorded log1p finding near z = -2)"),
    "C01-m5-logical-not-lt-becomes-lt": ("Rewriter.logical_not: not (a < b) -> lt(b, a) instead of le(b, a)", "a == b exactly; in asin_acos_kernel |x| == sqrt(largest)/8*1e12", True, ""),
    "C03-m3-kernel-region-signed-x": ("asin_acos_kernel region test uses signed_x instead of x", "Re z <= -1 with |Re z| in [1, 1.5]", True, ""),
    "C03-m4-atanh-imag-sign-factored": ("complex_atanh: sign of y factored out of the imaginary part", "an imaginary part equal to -0.0 (only the sign of a zero result changes)", True, ""),
    "C03-m5-atan-both-negations-dropped": ("complex_atan: both negations of the rotation dropped", "real-axis inputs z = x +- 0j", True, ""),
    "C04-m3-nonnegative-mul-nonpositive-times-positive": ("Expr._is_nonnegative: (nonpositive * positive) inferred strictly negative", "a product of a weakly non-positive non-constant factor and a positive constant compared with 0, evaluated where the factor is 0", False, "C04 scope T representatives: positive/negative numeric constants other than +-1 (which the rewriter folds away)"),
    "C04-m4-logical-not-gt-becomes-lt": ("Rewriter.logical_not: not (a > b) -> lt(a, b) instead of le(a, b)", "a == b with an explicit logical_not over a bare gt", True, ""),
    "C04-m5-constant-fold-keeps-python-float": ("Rewriter.constant no longer converts Python floats to the target dtype before folding", "a fold of two constants that are inexact in float32 (0.1 + 0.2 == 0.3)", False, "C04 scope F: comparisons and operations over foldable pairs of constants that are not representable in float32"),
    "C05-m4-cpp-ge-as-gt": ("C++ ge template emits >", "operands of ge exactly equal", True, ""),
    "C05-m5-numpy-make-argument-ref": ("numpy make_argument prints arg.ref", "one Context re-used with the same parameter name in another dtype", True, ""),
    "C05-m6-trace-resets-ref-registry": ("Context.trace resets the reference registry", "one Context: trace+emit first, then trace second with a shared sub-expression whose cached name is re-bound", False, "C05 Context-reuse recipes in which consecutive definitions give the same user-chosen name to different expressions around a shared sub-expression (the first ad-hoc 'catch' of this seed had been a transient false alarm of my own)"),
    "C06-m3-stablehlo-arg-constraint-from-last-arg": ("stablehlo Pat header takes every argument's element constraint from the last argument", "a signature mixing real and complex arguments", True, ""),
    "C06-m4-cpp-make-constant-neginf-sign": ("cpp make_constant (constant printer of xla_client): -inf printed as +infinity", "a raw float -inf constant (not the named neginf) on xla_client", False, "C06 constants: numeric +-inf and -0.0 in the lattice"),
    "C06-m5-xla-log10-as-log1p": ("xla_client table: log10 rendered as Log1p", "a native log10 node on xla_client", False, "C06 lattice derives its kinds from both reference tables and the target's own table (every declared kind is exercised)"),
    "C07-m3-likeless-literal-memo": ("Context.constant memoises like-less literals by (type, value)", "constant(0.0) then constant(-0.0) without like (also alt contexts)", False, "C07 family F3 (like-less literals, three Context parameter sets)"),
    "C07-m4-normalize-like-absolute": ("normalize_like replaces absolute(z) by z also for complex z", "a constant whose like is abs of a complex symbol next to one whose like is the symbol", False, "C07 family F3 (likes that are negative/absolute of real and complex symbols)"),
    "C07-m5-type-fromobject-int-width": ("Type.fromobject drops the width of 'int<N>' spellings", "symbols/constants typed int32 vs int64 (strings or NumPy classes)", False, "C07 family F3 (type spellings, integer widths)"),
    "C08-m3-numpy-finfo-constant-uncast": ("numpy make_constant skips the cast for finfo constants", "a named finfo constant (eps, largest, ...) with a complex like that gets its own variable", False, "C08 variant with a reference forced on every node (constants included), so the debug assertion covers inline nodes"),
    "C08-m4-select-type-from-cond-and-first-branch": ("Expr.get_type(select) joins operands 0 and 1 instead of 1 and 2", "a select whose second branch is wider / more complex than the first", True, ""),
    "C08-m5-type-max-width-filter-self-kind": ("Type.max bit-width filter uses self.kind", "real operand first and narrower than half the complex operand (float32 op complex128)", True, ""),
    "C09-m3-call-counter-process-global": ("Context.call stack-name counter kept in a default argument (process-global)", "a function that goes through ctx.call and has a local name clashing with the callee's, after other generations in the process", True, ""),
    "C09-m4-logical-or-order-by-intkey": ("Rewriter.logical_or canonical order by intkey instead of key", "one Context re-used: an operand of the or created by an earlier function", False, "C09 histories on one Context (same-signature definitions sharing sub-expressions; text compared with the fresh-Context text up to renaming of generated names)"),
    "C09-m5-make-ref-hash-of-key": ("make_ref fallback name uses hash(expr.key)", "different PYTHONHASHSEED, a function with an unnamed shared sub-expression", True, ""),
    "C16-m3-exponent-by-squaring-odd-step": ("fast_exponent_by_squaring odd step multiplies by r instead of x", "balanced/canonical schemes, degree >= 5/10", True, ""),
    "C16-m4-add-number-first-drops-reverse": ("polynomial.add with a bare number as first operand drops reverse", "first operand a bare number, reverse=True, list of >= 2 entries", False, "C16 number operands (first/second) for add and multiply"),
    "C16-m5-fpa-rpolynomial-degree0": ("fpa.rpolynomial peels the first Horner step", "a single-entry ratio list (degree 0)", True, ""),
    "C18-m3-set-mxcsr-skips-cached-value": ("set_mxcsr skips ldmxcsr when the value equals the last one written through that instance", "two register instances alternating writes", False, "C18 contexts are created from two register objects (the hardware register is one per thread)"),
    "C18-m4-enter-caches-new-state": ("context.__enter__ caches the modified value of its first entry", "one context object entered twice under different ambient MXCSR", True, ""),
    "C18-m5-exit-pops-oldest": ("context.__exit__ pops the oldest saved state", "re-entrant use of one context object", True, ""),
    # ---- third wave
    "C02-m3-acos-one-minus-square": ("real_acos: sqrt((1-x)*(1+x)) -> sqrt(1-x*x)", "positive x a little below 1 (turns one package test from passed to xfailed, none fails)", True, ""),
    "C02-m4-asinh-sets-shared-context-parameter": ("real_asinh writes its default coefficient into Context.parameters under a name real_acosh reads with another meaning", "one Context: trace asinh, then acosh; evaluate acosh in the top binade", False, "C02 / C01 histories on one Context: g traced after f must compute what g traced in a fresh Context computes (all ordered pairs for C02, a rotating subset (all pairs thorough) for C01)"),
    "C02-m5-hypot-underflow-correction-times-two": ("hypot underflow-correction term mx*r/2 -> mx*r*2", "min/max within a binade of sqrt(eps)", True, ""),
    "C10-m3-mul-dekker-overflow-guard-no-abs": ("mul_dekker fix_overflow guard loses abs()", "fix_overflow=True, opposite signs, |x*y| within 2^-(p//2) of the largest value: low word -inf", True, ""),
    "C10-m4-utils-sum-2sum-uses-fast2sum": ("utils.sum_2sum two-element branch calls add_fast2sum", "two items with |seq[0]| < |seq[1]|", True, ""),
    "C10-m5-apmath-split-unscaled": ("apmath.split calls split_veltkamp without scale=True", "|x| > largest/C", True, ""),
    "C11-m3-is-power-of-two-default-uses-sibling-parameters": ("is_power_of_two default branch reads the constants of is_one_or_three_times_power_of_two", "default parameters and x = +-3*2^k", True, ""),
    "C11-m4-fma-a9-vl-vh-typo": ("fma_real a9: vl == 0 -> vh == 0", "algorithm a9, cancellation, low word a power of two", True, ""),
    "C11-m5-apmath-fma-two-prod-flags-swapped": ("apmath.fma passes fix_overflow/scale positionally in the wrong order", "algorithm apmath, fix_overflow=False, scale=True, one large factor, cancellation", True, ""),
    "C12-m3-overlapping-asymmetric-boundary": ("utils.overlapping: first comparison >= -> >", "(smaller, larger) argument order with |x| == ulp(y)", True, ""),
    "C12-m4-renormalize-two-sum-flags-swapped": ("renormalize second stage passes fast/fix_overflow positionally into two_sum's (fix_overflow, assume_fma) slots", "fast=False, fix_overflow=True, unordered input", False, "C12 fix_overflow dimension for renormalize (NumpyContext and eager routes)"),
    "C12-m5-subtract-truncates-operands-first": ("subtract truncates both operands to `size` before subtracting", "a size limit below an operand's length with cancelling leading terms", False, "C12 size-limited add/subtract must stay exact whenever the exact result fits into `size` terms (operands of length 3)"),
    "C13-m3-bin2float-negzero-int-literal": ("bin2float('-0') returns dtype(-0) = +0.0", "the string '-0', bitwise comparison", True, ""),
    "C13-m4-fraction2float-default-prec-from-mp": ("fraction2float default precision taken from mpmath.mp.prec", "global mpmath.mp precision more than 10 bits below the format's", False, "C13 repeats a sub-lattice of every conversion while the global mpmath.mp context works at 11 and 24 bits"),
    "C13-m5-mpf2float-min-context-precision": ("mpf2float rounds to min(context precision, format precision)", "an mpf whose context precision is below the format's", True, ""),
    "C15-m3-mpf2float-flush-test-before-rounding": ("mpf2float tests for flush/zero before rounding", "values just below the threshold that round up to it", True, ""),
    "C15-m4-unspecified-flush-sentinel-truthy": ("vectorize_with_mpmath: `flush_subnormals or default`: the UNSPECIFIED sentinel is truthy", "flush_subnormals not passed at all and a subnormal result", True, ""),
    "C15-m5-backend-context-from-last-argument": ("vectorize_with_backend.__call__ takes the evaluation context from the last float argument", "two float arguments of different dtypes with extra precision", False, "C15 binary functions on all ordered pairs of argument types (which also surfaced the recorded mixed-type finding for expressions led by the second argument)"),
    "C19-m3-split-at-zero-forgets-zero-slot": ("real_samples split-at-zero clamp forgets the slot of the zero sample", "mixed-sign bounds, include_zero, lopsided range", True, ""),
    "C19-m4-fix-limit-value-zero-is-falsy": ("_fix_limit_value: `if value is None` -> `if not value`", "a scalar bound equal to zero given to the pair / complex-pair generators", False, "C19 product-generator configurations with +-0 bounds"),
    "C19-m5-complex-samples-imag-include-huge": ("complex_samples does not forward include_huge to the imaginary axis", "include_huge=False with a large enough imaginary size", True, ""),
    "C14-m3-diff-ulp-flush-only-for-opposite-signs": ("diff_ulp flush remapping guarded by `sx != sy`", "flush_subnormals=True and two same-sign operands one of which is subnormal", True, ""),
    "C14-m4-ulp-memoised-across-dtypes": ("utils.ulp memoised in a module-level dict keyed by the value", "a value representable in two float types asked first in one type and then in the other", True, ""),
    "C14-m5-diff-log2ulp-via-frexp": ("diff_log2ulp computes the bit length through math.frexp", "float64 distances just below a power of two >= 2^54", False, "C14 also checks the documented identity diff_log2ulp = diff_ulp.bit_length() on every judged pair and flush mode"),
    # ---- fourth wave
    "C03-m6-real-asinh-safe-min-limit-signed-x": ("real_asinh: `ax <= safe_min_limit` -> `x <= safe_min_limit`", "the documented Context parameter safe_min_limit and L < |x| < sqrt(largest)", False, "C03 repeats every identity under the documented Context parameter variants (safe_min_limit, safe_max_limit_coefficient, use_fast2sum)"),
    "C03-m7-log1p-case-c-y-times-ay": ("complex_log1p Case C: y*y -> y*ay", "|x+1|+|y| < 0.2 with y < 0", True, ""),
    "C03-m8-acos-atan2-reflection": ("complex_acos computes its real part by reflecting atan2 for negative real parts (acosh keeps the original expression)", "negative real part, compared with acosh", True, ""),
    "C04-m6-nonnegative-subtract-nonpositive-minus-nonnegative": ("Expr._is_nonnegative subtract branch: (nonpositive - nonnegative) inferred strictly negative", "both operands exactly zero", True, ""),
    "C04-m7-compare-nonconstant-uses-swapped-relop-column": ("Rewriter._compare final branch uses the swapped relop column", "an ordering comparison between two non-constant operands of opposite sign classes", True, ""),
    "C04-m8-select-gt-normalised-to-lt": ("Rewriter.select: (a > b) ? x : y normalised to select(a < b, y, x)", "a == b with arms that differ there", True, ""),
    "C05-m7-numpy-max-min-as-ufuncs": ("numpy maximum/minimum emitted as numpy.maximum/minimum", "two zeros of opposite sign (or NaN in the second operand)", True, ""),
    "C05-m8-select-typed-like-true-branch": ("Expr.get_type(select) takes the type of the true branch only", "branches of different types, the wider one third (seen by C08; C05 executes C++ only for equal argument types)", True, ""),
    "C05-m9-python-logical-not-unparenthesised": ("python logical_not template `not {0}`", "logical_not over an inlined logical_and / logical_or / boolean select", False, "C05 conditions that nest logical_not over and/or/select"),
    "C06-m6-stablehlo-constant-repr": ("stablehlo prints generic constants with repr", "a NumPy-scalar constant", False, "C06 NumPy-scalar constants; `constant-value` violations are classified by value class, which showed that the recorded complex-literal finding had been hiding this class (and a harness bug on `inf`)"),
    "C06-m7-cpp-negative-template-unparenthesised": ("cpp negative template `-{0}` (used for xla_client compile-time constants)", "a negated inline compound constant expression in the alt context", False, "C06 constant-only sub-trees (compile-time constant expressions)"),
    "C06-m8-make-ref-shares-constants-of-same-kind": ("make_ref shares constants of equal value whose types are only of the same kind (float32 vs float64)", "two equal constants with float32 and float64 like-operands (seen by C05 and C08; StableHLO text has no float widths)", True, ""),
    "C07-m6-normalize-memo-by-literal-value": ("expr.normalize memoises literal conversion per call by value", "two ==-equal literals of different type / sign of zero in one operand list", False, "C07 two literals in one operand list (list, select) for every pair of a literal alphabet"),
    "C07-m7-register-expression-rejects-nan-hit": ("Context._register_expression rejects a registry hit whose operands compare unequal (NaN)", "the same NaN constant built twice from different NaN objects", True, ""),
    "C07-m8-type-eq-param-identity": ("Type.__eq__ compares params by identity", "list-typed (tuple parameter) symbols built twice", False, "C07 list-typed symbol specs"),
    "C08-m6-complex-type-from-real-part-only": ("Expr.get_type(complex) uses the real operand's type only", "complex(float32, float64)", True, ""),
    "C08-m7-named-constant-with-type-template-uncast": ("PrinterBase skips the cast of named constants whose template contains {type}", "a finfo-family named constant with a complex like", True, ""),
    "C08-m8-numpy-upcast-float16-to-float64": ("numpy upcast table: float16 -> float64", "upcast of a float16 operand", True, ""),
    "C09-m6-trace-doc-iterates-kwargs-set": ("Context.trace builds the tracing-parameters doc line from a set of kwargs names", "lax target (prints __doc__), >= 2 tracing kwargs, different hash seeds", False, "C09 re-attaches the docstring to the apmath->lax graphs exactly as tools/generate_apmath_lax.py does"),
    "C09-m7-log1p-setdefault-into-shared-parameters": ("complex_log1p writes use_fast2sum into the Context parameters with setdefault", "Contexts built from one shared user parameters dict; log1p then log", False, "C09 all ordered pairs of complex numpy/python requests on Contexts that share one user parameters dict"),
    "C09-m8-definition-dispatcher-caches-registry-lookup": ("the real/complex dispatcher caches the definition it looked up first", "request, then (re-)registration of a user definition, then request", False, "C09 user definitions registered between requests"),
    "C16-m6-fast-polynomial-d0-branch-squares-power": ("fast_polynomial direct-evaluation branch squares its running power", "a user-supplied scheme that returns 0 for a block of degree >= 3", False, "C16 user-supplied schemes (zero, k//3, k-1, direct below 5) and a per-evaluation time limit"),
    "C16-m7-derivative-reverse-degree-not-updated": ("polynomial.derivative reverse branch keeps the initial degree", "reverse=True and n >= 2", True, ""),
    "C16-m8-fpa-horner-skips-zeros-no-final-flush": ("fpa.horner skips zero coefficients and forgets the pending powers at the end", "lowest-order coefficient(s) exactly zero", True, ""),
    "C18-m6-daz-dropped-when-fz-given": ("`elif DAZ is not None` hanging off the FZ block", "one context given both FZ and DAZ", True, ""),
    "C18-m7-modify-hoisted-to-creation-time": ("context computes its new value at creation time", "a context created in one register state and entered in another", True, ""),
    "C18-m8-set-stub-clears-denormal-flag": ("the ldmxcsr stub clears the sticky denormal flag first", "DE flag set on entry; whole-register comparison", False, "C18 compares the whole register (sticky status flags taken over from the hardware after each probe)"),
    "C17-m3-two-over-pi-working-precision-1064": ("get_two_over_pi_multiword: float64 working precision 1074 -> 1064", "float64, |x| above 2^1003, moderately small remainder (near-multiples of pi/2)", True, ""),
    "C17-m4-two-over-pi-max-length-49": ("argument_reduction_trigonometric_impl caps the float64 2/pi multiword at 49 words", "float64, top three binades, x within 1e-4 of a multiple of pi/2", True, ""),
    "C17-m5-mul-mw-mod4-drops-last-antidiagonals": ("mul_mw_mod4 loop bound drops the last two anti-diagonals", "float64, top binades, x within 1e-5 of a multiple of pi/2 with large low mantissa bits", True, ""),
    # ---- fifth wave (time-boxed to one hour per agent)
    "C01-m6-sum-2sum-low-word-overwritten": ("algorithms.sum_2sum overwrites the low word instead of accumulating it", "complex log1p on the left arc of |1+z| = 1", True, ""),
    "C01-m7-log1p-case-c-selector-without-ay": ("complex_log1p Case C selector `axp1 + ay < 0.2` -> `axp1 < 0.2`", "|x+1| < 0.2 with |y| near sqrt(1-(x+1)^2)", True, ""),
    "C01-m8-complex-log-low-word-yyl-twice": ("complex_log sums the low word of y^2 twice (x^2's dropped)", "|z| within about 1.5% of 1", True, ""),
    "C02-m6-hypot-ratio-guard-smallest": ("hypot divides by max(mx, smallest)", "both arguments subnormal and unequal", True, ""),
    "C02-m7-acosh-near-one-shortcut": ("real_acosh near-one shortcut sqrt(2(x-1)) guarded by sqrt(eps)", "x in (1+40 eps, 1+sqrt(eps))", True, ""),
    "C02-m8-acos-atan-select-negzero": ("real_acos rewritten with atan + select(x < 0)", "x = -0.0", True, ""),
    "C10-m6-utils-add-fast2sum-opposite-precondition": ("utils.add_fast2sum computes the error term for the opposite precondition", "|x| >= |y| with low bits of y absorbed", True, ""),
    "C10-m7-algorithms-add-2sum-parentheses-dropped": ("algorithms.add_2sum: (x - (s - z)) -> (x - s + z)", "fast=False, |x| < |y|", True, ""),
    "C10-m8-utils-add-2sum-mixed-formulation": ("utils.add_2sum mixes Knuth's and the z formulation", "rounding error of s at least half an ULP of x", True, ""),
    "C11-m6-renormalize-vecsum-without-fix-overflow": ("renormalize's first VecSum call loses fix_overflow", "apmath fma with x*y = +-largest and z = -+1.5 ulp(largest): nan", False, "C11 directed overflow-edge points (product or addend at / next to +-largest, the other a small multiple of half an ULP of largest) for every variant and dtype"),
    "C11-m7-fma-a8-two-sum-without-fix-overflow": ("fma_real a8 branch: two_sum without fix_overflow", "algorithm a8, z = +-largest, x*y = -+1.5 ulp(largest)", True, ""),
    "C11-m8-fma-a9-guard-sl-instead-of-z": ("apmath.fma a9: possibly_zero_z guard tests sl == 0", "algorithm a9, possibly_zero_z, z ~ -x*y with an exact high sum", True, ""),
    "C12-m6-multiply-loop-bound-from-square": ("apmath.multiply loop bound taken from square()", "len(seq2) >= len(seq1) + 2 with a non-negligible tail", False, "C12 multiply with operands of lengths 1..2 against 3..4 (both orders)"),
    "C12-m7-square-skips-diagonal": ("apmath.square filter `i1 > i2` -> `i1 >= i2`", "overlapping inputs or leading zeros", True, ""),
    "C13-m6-mpf2multiword-skip-zero-bits-once": ("mpf2multiword skips heading zero bits once (if) instead of repeatedly (while)", "a multi-word result whose mantissa has a run of about 2p zero bits", True, ""),
    "C13-m7-float2bin-negative-nan-asserts": ("float2bin's NaN test excludes NaNs with the sign bit set", "a NaN with the sign bit set (inf - inf)", True, ""),
    "C19-m6-negative-branch-positive-zero-max": ("real_samples negative-bounds branch uses max_value's own bit pattern", "min_value < 0 and max_value = +0.0", True, ""),
    "C19-m7-complex-samples-imag-max-from-real": ("complex_samples imaginary axis takes max_real_value", "max_imag_value != max_real_value", True, ""),
    "C19-m8-triple-samples-third-axis-include-huge": ("real_triple_samples does not forward include_huge to the third axis", "include_huge=False and a large enough third size", True, ""),
    "C14-m6-diff-ulp-flush-ge-first-argument-only": ("diff_ulp flush remapping `>` -> `>=` for the first argument only (the second keeps `>`)", "flush_subnormals=True and the first argument exactly +-largest subnormal: distance 0 to zero one way round, 1 the other (asymmetric)", True, ""),
    "C15-m6-backend-context-extraprec-cached-at-first-call": ("vectorize_with_mpmath.backend_context computes the extra working precision at the first call and reuses it", "extra_prec_multiplier != 0 and ONE instance called first with a narrow float type and then with a wider one, on an input that needs the wider type's working precision", False, "C15 instance-reuse histories: one backend instance called with every sequence of float types (length <= 2 quick, 3 thorough) x option sets; (x+1)-1 must return x on every point the promised working precision makes exact"),
    "C17-m6-ln2inv-wrong-digit": ("get_log2_doubleword_and_inverse: 1/ln2 = 1.44269504... typed as 1.44260504... (relative error 6e-5)", "float64 only, |x| in about 555..709.78 and frac(|x|/ln2) in a window < 0.014 wide just above 0.55: k is one too small, |r+c| > 0.55 ln2, reconstruction still exact", False, "C17 exponential points at the edges of the permitted remainder band, (k + 0.4495) ln2 and (k + 0.5505) ln2 with ULP neighbourhoods for every k of the domain and both signs (where only the nearest integer is an admissible k), plus the fractional lattice (k + j/16) ln2; the trigonometric analogue for k < K"),
    "C17-m7-trig-bypass-select-without-abs": ("argument_reduction_trigonometric_impl: small-argument bypass `abs(x) < pi/4` -> `x < pi/4` for r only (t keeps abs)", "any negative x with |x| >= pi/4 (the package test samples positive x only)", True, ""),
    "C15-m7-float-minexp-table-float64-off-by-one": ("vectorize_with_mpmath.float_minexp table: float64 -1021 -> -1020", "float64 only, flush_subnormals=True explicitly, value in the lowest normal binade [2^-1022, 2^-1021): flushed to +-0", True, ""),
}


def main():
    verify = {}
    if len(sys.argv) > 1:
        for line in open(sys.argv[1]):
            m = re.match(r"(\S+) (CAUGHT|MISSED|PATCH-DOES-NOT-APPLY)(.*)", line.strip())
            if m:
                verify[m.group(1)] = (m.group(2), m.group(3).strip())
    for name in sorted(os.listdir(SEEDED)):
        d = os.path.join(SEEDED, name)
        if not os.path.isdir(d):
            continue
        key = name if name in T else next((k for k in T if name.startswith(k)), None)
        what, needs, first, strengthened = T.get(key, ("", "", True, ""))
        confirm = {}
        cp = os.path.join(d, "confirm.txt")
        if os.path.exists(cp):
            for line in open(cp):
                if "=" in line:
                    k, v = line.rstrip("\n").split("=", 1)
                    confirm[k] = v
        meta = {
            "seed": name,
            "property": name.split("-")[0],
            "change": what,
            "needs_to_manifest": needs,
            "files": ["patch.diff (git apply in /repo)", "demo.py (exit 1 with the patch, 0 without; run from the repository root)", "notes.md (the sub-agent's description)"],
            "confirmed": {
                "demo_exit_status_clean_tree": confirm.get("demo_clean_rc"),
                "demo_exit_status_with_patch": confirm.get("demo_mutated_rc"),
                "package_tests_run_with_patch": confirm.get("tests"),
                "package_tests_result_with_patch": confirm.get("tests_result", "").strip("= "),
                "check_at_confirmation_time": confirm.get("checks"),
                "how": "tools_confirm_seed.sh: scratch export of /repo HEAD under /var/tmp, patch applied there, tests and ./check run with FA_REPO pointing at it; demo run in the sub-agent's worktree; scratch copy removed",
            },
            "caught_at_first_try": bool(first),
            "check_strengthened": strengthened,
        }
        if name in verify:
            meta["current_status"] = {"result": verify[name][0], "detail": verify[name][1], "how": "tools_verify_seeds.sh quick on the committed checks"}
        with open(os.path.join(d, "meta.json"), "w") as f:
            json.dump(meta, f, indent=1)
            f.write("\n")
    print("wrote meta.json for", len([n for n in os.listdir(SEEDED) if os.path.isdir(os.path.join(SEEDED, n))]), "seeds")


if __name__ == "__main__":
    main()
