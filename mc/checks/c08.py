"""C08 — static types equal run-time types.

Programs: the complete kind-pair lattice (every kind the NumPy target declares, with every other kind
nested at each operand position), constants of every class in every position, and the shipped
algorithms, traced under EVERY dtype assignment of the symbols from {float16, float32, float64,
complex64, complex128} (25 assignments for two symbols); the emitted NumPy code is run with debug=1
on special values and on both orderings of generic value pairs.
Violation: an AssertionError from an emitted dtype assertion, or a result whose dtype differs from
the declared one.  Graphs the printer refuses and programs that NumPy itself cannot execute
(TypeError etc.) are counted, not judged.
"""

from __future__ import annotations

import itertools
import re

import numpy as np

from mc import gen, proggen
from mc.harness import add_violation, bump, new_part, quiet, setup_repo_import

PROPERTY = "C08"
LEVEL = "exploration"
MOD = "mc.checks.c08"

DTYPES = ["float16", "float32", "float64", "complex64", "complex128"]
UN = ["absolute", "negative", "positive", "sqrt", "square", "exp", "log", "log1p", "sin", "cos", "sign", "floor", "ceil", "conjugate", "real", "imag", "upcast", "downcast",
      "asin", "acos", "atan", "asinh", "acosh", "atanh", "tan", "tanh", "sinh", "cosh", "expm1", "log2", "log10", "exp2", "truncate"]
BIN = ["add", "subtract", "multiply", "divide", "maximum", "minimum", "atan2", "hypot", "pow", "complex", "copysign", "nextafter", "remainder"]
CMP = ["lt", "le", "gt", "ge", "eq", "ne"]
CONSTS = [("c", 0), ("c", 1), ("c", 0.5), ("c", -0.0), ("c", 2), ("n", "largest"), ("n", "smallest"), ("n", "eps"), ("n", "posinf"), ("n", "pi"), ("c", True)]


def programs(level):
    x, y = ("x",), ("y",)
    L = [x, y]
    size1 = [(k, a) for k in UN for a in L] + [(k, a, b) for k in BIN + CMP for a in L for b in L]
    out = list(size1)
    # constants in every position
    for c in CONSTS:
        out += [(k, x, c) for k in BIN + CMP] + [(k, c, x) for k in BIN + CMP]
        out += [("select", ("lt", x, y), x, c), ("select", ("lt", x, y), c, y)]
    # select / logical plumbing
    out += [("select", (c, x, y), x, y) for c in CMP] + [("select", ("logical_and", ("lt", x, y), ("gt", x, y)), x, y), ("select", ("logical_not", ("lt", x, y)), y, x)]
    # kind-pair lattice: outer(inner(...)) with inner at each operand position
    inner = [(k, x) for k in UN] + [(k, x, y) for k in BIN]
    if level >= 1:
        for k in UN:
            for i in inner:
                out.append((k, i))
        for k in BIN + CMP:
            for i in inner:
                out.append((k, i, y))
                out.append((k, x, i))
        for i in inner:
            out.append(("select", ("lt", x, y), i, y))
            out.append(("select", ("lt", x, y), x, i))
    out += twin_constant_programs()
    seen, res = set(), []
    for r in out:
        if r not in seen:
            seen.add(r)
            res.append(r)
    return res


def twin_constant_programs():
    """two constants of the same value whose like-operands are different arguments (different dtypes in the mixed
    signatures), and constants that differ only in the sign of zero: they generate the same reference name"""
    x, y = ("x",), ("y",)
    out = []
    for v in (2, 0.1, 1, 0.5):
        out += [("add", ("multiply", x, ("c", v)), ("multiply", y, ("cy", v))), ("multiply", ("add", x, ("c", v)), ("add", y, ("cy", v))), ("add", ("multiply", y, ("cy", v)), ("multiply", x, ("c", v))),
                ("select", ("lt", x, ("c", v)), ("add", y, ("cy", v)), y), ("add", ("add", ("multiply", x, ("c", v)), ("multiply", y, ("cy", v))), ("multiply", ("multiply", x, ("c", v)), ("multiply", y, ("cy", v))))]
    out += [("add", ("atan2", ("c", 0.0), x), ("atan2", ("c", -0.0), y)), ("add", ("atan2", ("c", -0.0), x), ("atan2", ("c", 0.0), y)), ("add", ("copysign", x, ("c", 0.0)), ("copysign", y, ("c", -0.0))),
            ("add", ("divide", ("c", 1), ("add", ("multiply", x, ("c", 0.0)), ("c", 0.0))), ("divide", ("c", 1), ("add", ("multiply", y, ("c", 0.0)), ("c", -0.0))))]
    return out


def build_recipe(fa, ctx, recipe, syms):
    """syms may carry "__force__": True -> every constructed node (constants included) asks for a reference, so that the
    emitted code assigns it to a variable (and, with debug=1, asserts its dtype)."""
    e = _build_recipe(fa, ctx, recipe, syms)
    if syms.get("__force__") and recipe[0] not in ("x", "y"):
        try:
            e.reference(force=True)
        except Exception:
            pass
    return e


def _build_recipe(fa, ctx, recipe, syms):
    k = recipe[0]
    if k in ("x", "y"):
        return syms[k]
    if k == "c":
        return ctx.constant(recipe[1], syms["x"]) if not isinstance(recipe[1], bool) else ctx.constant(recipe[1])
    if k == "n":
        return ctx.constant(recipe[1], syms["x"])
    if k == "cy":  # constant whose like-operand is y
        return ctx.constant(recipe[1], syms["y"])
    if k == "ref":  # ("ref", name, sub): the sub-expression asks for the reference name `name`
        return build_recipe(fa, ctx, recipe[2], syms).reference(recipe[1])
    if k == "call":  # ("call", fname, sub): sub is built inside ctx.call of a function named fname (its own naming scope)

        def fn(ctx_):
            return build_recipe(fa, ctx_, recipe[2], syms)

        fn.__name__ = recipe[1]
        return ctx.call(fn, ())
    ops = [build_recipe(fa, ctx, r, syms) for r in recipe[1:]]
    if k == "select":
        return ctx.select(*ops)
    return fa.Expr(ctx, k, tuple(ops))


def skeleton(r):
    k = r[0]
    if k in ("x", "y"):
        return k
    if k in ("c", "n"):
        return repr(r[1])
    if k == "cy":
        return repr(r[1]) + "~y"
    if k in ("ref", "call"):
        return f"{k}[{r[1]}](" + skeleton(r[2]) + ")"
    return k + "(" + ",".join(skeleton(q) for q in r[1:]) + ")"


VALUES = [0.5, 2.0, -1.5, 0.0, -0.0, 3.0, np.inf]


def inputs_for(dt):
    t = getattr(np, dt)
    if dt.startswith("complex"):
        return [t(complex(a, b)) for a, b in ((0.5, 2.0), (2.0, -0.5), (0.0, 0.0), (-1.5, 3.0), (3.0, 0.25))]
    return [t(v) for v in VALUES]


def run_one(fa, recipe, dtx, dty, simplify, force=False):
    """returns (status, info)."""

    def f(ctx, x, y):
        return build_recipe(fa, ctx, recipe, {"x": x, "y": y, "__force__": force})

    with quiet():
        try:
            ctx = fa.Context(paths=[fa.algorithms])
            g = ctx.trace(f, getattr(np, dtx), getattr(np, dty))
            if simplify:
                g = g.rewrite(fa.targets.numpy, fa.rewrite)
            else:
                g = g.rewrite(fa.targets.numpy)
            declared = g.operands[-1].get_type()
            fn = fa.targets.numpy.as_function(g, debug=1)
        except Exception as e:
            return "not-accepted", type(e).__name__
    xs, ys = inputs_for(dtx), inputs_for(dty)
    nexec = 0
    for a in xs:
        for b in ys:
            try:
                with np.errstate(all="ignore"):
                    with quiet():
                        r = fn(a, b)
                nexec += 1
            except AssertionError as e:
                msg = str(e)
                try:
                    decl = fa.targets.numpy.Printer({}, debug=0).get_type(g.operands[-1])
                except Exception:
                    decl = str(declared)
                return "assertion", (msg[:200] + f" [declared result type {decl}]", repr(a), repr(b))
            except Exception as e:
                return "not-executable", type(e).__name__
    return "ok", nexec


def classify_assert(msg):
    m = re.search(r"dtype\('(\w+)'\)", msg)
    m2 = re.search(r"<class 'numpy\.(\w+)'>|, numpy\.(\w+)\)", msg)
    d = re.search(r"declared result type numpy\.(\w+)", msg)
    declared = (m2.group(1) or m2.group(2)) if m2 else (d.group(1) if d else "?")
    return f"actual={m.group(1) if m else '?'},declared={declared}"


def operand_dtypes(fa, recipe, dtx, dty):
    """run-time dtypes of the operands of the root (by running each operand as its own program, debug=0)."""
    out = []
    for q in recipe[1:]:
        if q[0] == "x":
            out.append(dtx)
        elif q[0] == "y":
            out.append(dty)
        elif q[0] in ("c", "n", "cy"):
            out.append("const")
        else:
            def make(q):
                def f(ctx, x, y):
                    return build_recipe(fa, ctx, q, {"x": x, "y": y})

                return f

            f = make(q)

            try:
                with quiet():
                    ctx = fa.Context(paths=[fa.algorithms])
                    g = ctx.trace(f, getattr(np, dtx), getattr(np, dty)).rewrite(fa.targets.numpy)
                    fn = fa.targets.numpy.as_function(g, debug=0)
                    with np.errstate(all="ignore"):
                        r = fn(inputs_for(dtx)[0], inputs_for(dty)[0])
                out.append(str(np.asarray(r).dtype))
            except Exception:
                out.append("?")
    return out


def signature(fa, best, dtx, dty, info):
    ods = operand_dtypes(fa, best, dtx, dty)
    if best[0] == "select":
        ods = ods[1:]
    ods = [dtx if d == "const" else d for d in ods]  # a constant takes the type of its `like` (x)
    real = sorted(set(ods))
    if len(real) <= 1:
        cat = "same-operand-dtypes"
    else:
        def width(d):
            m = re.search(r"(\d+)$", d)
            return int(m.group(1)) if m else 0

        cx = [d for d in real if d.startswith("complex")]
        fl = [d for d in real if d.startswith("float")]
        if cx and fl:
            cat = "real-operand-wider-than-complex-part" if max(map(width, fl)) > max(map(width, cx)) // 2 else "real-with-complex-operand"
        elif len(fl) > 1 and not cx:
            cat = "mixed-float-widths"
        elif len(cx) > 1 and not fl:
            cat = "mixed-complex-widths"
        else:
            cat = "mixed-other"
    return f"dtype-assertion:{best[0]}:{cat}:{classify_assert(info[0])}"


def subtrees(r):
    if r[0] in ("x", "y", "c", "n", "cy"):
        return
    for q in r[1:]:
        if q[0] not in ("x", "y"):
            yield q
        yield from subtrees(q)


def w_progs(task):
    fa = setup_repo_import()
    part = new_part()
    progs = programs(task["level"])[task["lo"]::task["stride"]]
    for recipe in progs:
        for dtx in DTYPES:
            for dty in (DTYPES if "y" in skeleton(recipe).replace("y)", "y)") and _uses_y(recipe) else DTYPES[:1]):
                # (simplify, force): force=True asks for a variable for every node, constants included, so that the debug
                # assertion covers nodes that would otherwise be printed inline
                for simplify, force in ((True, False), (False, False), (False, True)) if task["both"] else ((True, False), (False, True)):
                    part["evaluations"] += 1
                    st, info = run_one(fa, recipe, dtx, dty, simplify, force)
                    bump(part, "status_" + st)
                    if st == "assertion":
                        best = recipe
                        for sub in subtrees(recipe):
                            s2, i2 = run_one(fa, sub, dtx, dty, simplify, force)
                            if s2 == "assertion":
                                best, info = sub, i2
                                break
                        sig = signature(fa, best, dtx, dty, info)
                        if force and best[0] in ("c", "n", "cy"):
                            sig = f"dtype-assertion:constant:{best[1] if best[0] == 'n' else 'numeric'}:like={dtx if best[0] != 'cy' else dty}:{classify_assert(info[0])}"
                        add_violation(part, sig, f"{skeleton(recipe)} with x:{dtx}, y:{dty} (simplify={simplify}, every node referenced={force}): emitted debug assertion fails: {info[0]} at inputs {info[1]}, {info[2]}", {"recipe": repr(recipe), "dtx": dtx, "dty": dty, "simplify": simplify, "force": force})
                    elif st == "ok":
                        part["nontrivial"] += 1
    if progs:
        part["samples"].append({"program": skeleton(progs[len(progs) // 2]), "dtype_assignments": 25})
    return part


def _uses_y(r):
    if r[0] in ("y", "cy"):
        return True
    if r[0] in ("x", "c", "n"):
        return False
    return any(_uses_y(q) for q in r[1:])


def w_shipped(task):
    fa = setup_repo_import()
    part = new_part()
    req = tuple(task["req"])
    part["evaluations"] += 1
    with quiet():
        try:
            g, target = gen.build_graph(fa, req)
            fn = fa.targets.numpy.as_function(g, debug=1)
        except NotImplementedError:
            bump(part, "shipped_not_implemented")
            return part
        except Exception as e:
            bump(part, "shipped_not_accepted_" + type(e).__name__)
            return part
    atypes = fa.targets.numpy.trace_arguments[req[1]][req[2]]
    dts = [a.split(":")[1].strip() for a in atypes]
    vals = [inputs_for(d) + ([getattr(np, d)(1e-30), getattr(np, d)(1e30)] if d.startswith("float") else [getattr(np, d)(complex(1e-30, 1e30)), getattr(np, d)(complex(np.inf, 1)), getattr(np, d)(complex(-1, 0.0))]) for d in dts]
    for args in itertools.product(*vals):
        try:
            with np.errstate(all="ignore"):
                with quiet():
                    fn(*args)
            part["nontrivial"] += 1
        except AssertionError as e:
            add_violation(part, f"dtype-assertion:shipped:{req[1]}:{','.join(dts)}:{classify_assert(str(e))}", f"{req}: debug assertion fails at {args}: {str(e)[:200]}", {"req": list(req)})
            break
        except Exception as e:
            bump(part, "shipped_not_executable_" + type(e).__name__)
            break
    return part


def run(run):
    thorough = run.tier == "thorough"
    fa = setup_repo_import()
    level = 1
    n = len(programs(level))
    run.counters["programs"] = n
    stride = 64
    tasks = [dict(level=level, lo=lo, stride=stride * (1 if thorough else 1), both=thorough) for lo in range(stride)]
    if not thorough:
        # quick: the size-1 / constant programs completely, the kind-pair lattice on a seeded half
        base = len(programs(0))
        run.counters["quick_programs"] = base + (n - base) // 2
        tasks = [dict(level=0, lo=lo, stride=32, both=False) for lo in range(32)] + [dict(level=1, lo=base + ((run.seed + 2 * lo) % (2 * 64)), stride=2 * 64, both=False) for lo in range(64)]
    run.map(MOD, "w_progs", tasks)
    reqs = [r for r in gen.requests(fa, ["numpy"])]
    run.map(MOD, "w_shipped", [dict(req=list(r)) for r in reqs])
    run.coverage_extra["programs"] = n
    run.rule = (
        f"{n} programs: every kind the NumPy target declares applied to symbols (size 1), every constant class in every operand position, select/logical plumbing, and the "
        "complete kind-pair lattice (outer kind x inner kind x operand position), each under all 25 dtype assignments of (x, y) from float16/32/64, complex64/128, emitted with "
        "debug=1 and run on special values and generic pairs in both orders; shipped NumPy requests likewise; non-trivial = (program, assignment) pairs that executed"
    )
    run.exhaustive = thorough
    run.coverage_extra["exhaustive_scope"] = "complete kind-pair lattice in the thorough tier; all size-1/constant programs + a seeded half of the lattice in quick"
    run.assumptions = ["programs that the printer refuses or that NumPy cannot execute (TypeError, ...) are outside the claim"]


def replay(case):
    fa = setup_repo_import()
    part = new_part()
    if "recipe" in case:
        recipe = eval(case["recipe"])
        force = bool(case.get("force"))
        st, info = run_one(fa, recipe, case["dtx"], case["dty"], case["simplify"], force)
        if st == "assertion":
            best = recipe
            for sub in subtrees(recipe):
                s2, i2 = run_one(fa, sub, case["dtx"], case["dty"], case["simplify"], force)
                if s2 == "assertion":
                    best, info = sub, i2
                    break
            add_violation(part, signature(fa, best, case["dtx"], case["dty"], info), info[0], case)
    else:
        part = w_shipped(dict(req=case["req"]))
    return [(v["sig"], v["msg"]) for v in part["violations"]]
