"""E5 — bounded program enumeration: every well-typed expression tree up to a size bound over a
declared alphabet of kinds and leaves, as *recipes* (nested tuples) that are built into real Expr
objects in a fresh Context.

A recipe is  ("x",) | ("y",) | ("c", value) | ("n", name) | ("b", bool) | (kind, r1, ..., rk).
Types: "F" (float-valued) and "B" (boolean-valued).
"""

from __future__ import annotations

import itertools

UNARY_F = ["negative", "positive", "absolute", "sign", "sqrt", "square"]
UNARY_F_EXTRA = ["floor", "ceil", "truncate", "upcast", "downcast"]
BINARY_F_EXTRA = ["atan2", "copysign", "hypot"]
BINARY_F = ["add", "subtract", "multiply", "divide", "minimum", "maximum"]
COMPARE = ["lt", "le", "gt", "ge", "eq", "ne"]
LOGIC2 = ["logical_and", "logical_or", "logical_xor"]


def leaves(level):
    base = [("x",), ("y",), ("c", 0), ("c", 1)]
    if level >= 1:
        base += [("c", -1), ("c", 2), ("c", 0.5), ("c", -0.0), ("n", "posinf"), ("n", "neginf"), ("n", "largest"), ("n", "smallest"), ("n", "eps")]
    if level >= 2:
        base += [("n", "smallest_subnormal"), ("n", "pi"), ("c", 1.5), ("c", -2.5)]
    return base


BOOL_LEAVES = [("b", True), ("b", False)]


def enum(size, typ, L, unary=UNARY_F, binary=BINARY_F, compare=COMPARE, logic=LOGIC2, with_select=True, memo=None):
    """all recipes of exactly `size` operation nodes and type `typ`."""
    if memo is None:
        memo = {}
    key = (size, typ)
    if key in memo:
        return memo[key]
    out = []
    if size == 0:
        out = list(L) if typ == "F" else list(BOOL_LEAVES)
    elif typ == "F":
        for r in enum(size - 1, "F", L, unary, binary, compare, logic, with_select, memo):
            for k in unary:
                out.append((k, r))
        for i in range(size):
            j = size - 1 - i
            A = enum(i, "F", L, unary, binary, compare, logic, with_select, memo)
            Bq = enum(j, "F", L, unary, binary, compare, logic, with_select, memo)
            for k in binary:
                for a in A:
                    for b in Bq:
                        out.append((k, a, b))
        if with_select:
            for i in range(size):
                for j in range(size - i):
                    kq = size - 1 - i - j
                    for c in enum(i, "B", L, unary, binary, compare, logic, with_select, memo):
                        if c[0] == "b" and i == 0 and size > 1:
                            pass
                        for a in enum(j, "F", L, unary, binary, compare, logic, with_select, memo):
                            for b in enum(kq, "F", L, unary, binary, compare, logic, with_select, memo):
                                out.append(("select", c, a, b))
    else:
        for r in enum(size - 1, "B", L, unary, binary, compare, logic, with_select, memo):
            out.append(("logical_not", r))
        for i in range(size):
            j = size - 1 - i
            A = enum(i, "F", L, unary, binary, compare, logic, with_select, memo)
            Bq = enum(j, "F", L, unary, binary, compare, logic, with_select, memo)
            for k in compare:
                for a in A:
                    for b in Bq:
                        out.append((k, a, b))
            A = enum(i, "B", L, unary, binary, compare, logic, with_select, memo)
            Bq = enum(j, "B", L, unary, binary, compare, logic, with_select, memo)
            for k in logic:
                for a in A:
                    for b in Bq:
                        out.append((k, a, b))
            if with_select and size >= 1:
                pass
    memo[key] = out
    return out


def build(fa, ctx, recipe, syms, cache=None):
    """recipe -> Expr in ctx.  syms: dict name -> symbol Expr."""
    if cache is None:
        cache = {}
    if recipe in cache:
        return cache[recipe]
    k = recipe[0]
    if k in ("x", "y", "z"):
        e = syms[k]
    elif k == "c":
        e = ctx.constant(recipe[1], syms["x"])
    elif k == "n":
        e = ctx.constant(recipe[1], syms["x"])
    elif k == "b":
        e = ctx.constant(recipe[1])
    else:
        ops = [build(fa, ctx, r, syms, cache) for r in recipe[1:]]
        if k == "select":
            e = ctx.select(*ops)
        else:
            e = fa.Expr(ctx, k, tuple(ops))
    cache[recipe] = e
    return e


def uses(recipe, names=("x", "y")):
    s = set()

    def walk(r):
        if r[0] in names:
            s.add(r[0])
        elif r[0] not in ("c", "n", "b"):
            for q in r[1:]:
                walk(q)

    walk(recipe)
    return s
