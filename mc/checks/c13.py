"""C13 — number-representation conversions are lossless and mutually inverse.

Enumerated: every float16 bit pattern (NaN payloads included for the string/mpf forms);
float32/float64 on all binades (every subnormal binade) x mantissa patterns x signs.
Oracle: integer decoding of the bit pattern (mc.oracle.decode) for the exact value of every
intermediate object; bit identity for the round trip.
"""

from __future__ import annotations

from fractions import Fraction as F

import numpy as np

from mc import lattice
from mc.harness import add_violation, bump, new_part, setup_repo_import
from mc.oracle import FMT, decode, fmt_of

PROPERTY = "C13"
LEVEL = "exploration"
MOD = "mc.checks.c13"

DT = {"float16": np.float16, "float32": np.float32, "float64": np.float64}


def bits_of(x):
    return int(np.asarray(x).view(fmt_of(x.dtype)["ui"]))


def cls_of(x):
    if np.isnan(x):
        return "nan"
    if np.isinf(x):
        return "inf"
    if x == 0:
        return "negzero" if np.signbit(x) else "zero"
    fi = np.finfo(x.dtype)
    return "subnormal" if abs(x) < fi.smallest_normal else "normal"


def parse_bin(s):
    """Independent parser of the binary significand/exponent notation -> Fraction | str."""
    if s in ("inf", "-inf", "nan"):
        return s
    if s in ("0", "-0"):
        return F(0)
    neg = s.startswith("-")
    if neg:
        s = s[1:]
    mant, e = s.split("p")
    if "." in mant:
        ip, fp = mant.split(".")
    else:
        ip, fp = mant, ""
    assert ip == "1" and set(fp) <= {"0", "1"}, s
    m = F(int(ip + fp, 2), 1 << len(fp))
    v = m * F(2) ** int(e)
    return -v if neg else v


def mpf_value(m):
    """Exact value of an mpf from its (sign, man, exp, bc) tuple."""
    sign, man, exp, bc = m._mpf_
    if man == 0:
        if exp == 0:
            return F(0)
        import mpmath

        t = m._mpf_
        if t == mpmath.libmp.finf:
            return "inf"
        if t == mpmath.libmp.fninf:
            return "-inf"
        return "nan"
    v = F(int(man)) * F(2) ** int(exp)
    return -v if sign else v


def same_bits(a, b):
    return type(a) is type(b) and bits_of(a) == bits_of(b)


AMBIENT = [None]  # precision of the global mpmath.mp context while judging (None: the default 53 bits)


def judge(fa, part, dtname, b, mpctxs, xsrc=None):
    """All conversions for one bit pattern of one dtype."""
    import mpmath

    u = fa.utils
    dtype = DT[dtname]
    f = FMT[dtname]
    x = np.array(b, dtype=f["ui"]).view(dtype)[()]
    c = cls_of(x)
    exact = decode(b, dtname)
    case0 = {"dtype": dtname, "bits": int(b)}
    part["evaluations"] += 1
    if c in ("normal", "subnormal"):
        part["nontrivial"] += 1

    def viol(conv, what, extra=""):
        amb = f":ambient-mp.prec={AMBIENT[0]}" if AMBIENT[0] else ""
        add_violation(part, f"{conv}:{what}:{c}{amb}", f"{conv} {what} for {dtname} bits={b:#x} value={x!r} {extra}" + (f" (global mpmath.mp.prec = {AMBIENT[0]})" if AMBIENT[0] else ""), dict(case0, conv=conv, ambient=AMBIENT[0]))

    # ---- fraction
    if c != "nan":
        try:
            q = u.float2fraction(x)
            if c not in ("inf",):
                if q != exact:
                    viol("float2fraction", "intermediate-value", f"got {q} expected {exact}")
            back = u.fraction2float(dtype, q)
            ok = same_bits(back, x) or (c == "negzero" and same_bits(back, dtype(0)))
            if not ok:
                viol("fraction2float", "roundtrip", f"got {back!r}")
        except Exception as e:
            viol("float2fraction", "raises", f"{type(e).__name__}: {e}")
    # ---- binary string
    try:
        s = u.float2bin(x)
        pv = parse_bin(s)
        if pv != (exact if c != "negzero" else F(0)):
            viol("float2bin", "intermediate-value", f"string {s!r} parses to {pv}, expected {exact}")
        back = u.bin2float(dtype, s)
        if c == "nan":
            ok = isinstance(back, dtype) and np.isnan(back)
        else:
            ok = same_bits(back, x)
        if not ok:
            viol("bin2float", "roundtrip", f"string {s!r} -> {back!r}")
    except Exception as e:
        viol("float2bin", "raises", f"{type(e).__name__}: {e}")
    # ---- mpf at several context precisions
    for prec, ctx in mpctxs:
        try:
            m = u.float2mpf(ctx, x)
            mv = mpf_value(m)
            want = exact if c != "negzero" else F(0)
            if isinstance(want, str) and want.startswith("nan"):
                want = "nan"
            if mv != want:
                viol("float2mpf", f"intermediate-value:prec={prec}", f"mpf {m._mpf_} = {mv}, expected {exact}")
            back = u.mpf2float(dtype, m)
            if c == "nan":
                ok = isinstance(back, dtype) and np.isnan(back)
            elif c == "negzero":
                ok = same_bits(back, dtype(0)) or same_bits(back, x)  # mpf has no signed zero
            else:
                ok = same_bits(back, x)
            if not ok:
                viol("mpf2float", f"roundtrip:prec={prec}", f"got {back!r}")
        except Exception as e:
            viol("float2mpf", f"raises:prec={prec}", f"{type(e).__name__}: {e}")
    if c in ("nan",):
        return
    # ---- expansion / multiword (through an mpf with enough precision)
    prec, ctx = mpctxs[-1]
    m = u.float2mpf(ctx, x)
    for length, functional in ((None, False), (1, False), (2, False), (3, True)):
        try:
            e = u.mpf2expansion(dtype, m, length=length, functional=functional)
            if not (isinstance(e, list) and all(type(t) is dtype for t in e)):
                viol("mpf2expansion", "type", f"got {e!r}")
                continue
            if functional and length is not None and len(e) != length:
                viol("mpf2expansion", "functional-length", f"len {len(e)} != {length}")
            if length is not None and len(e) > length:
                viol("mpf2expansion", "length", f"len {len(e)} > {length}")
            back = u.mpf2float(dtype, u.expansion2mpf(ctx, e))
            ok = same_bits(back, x) or (c == "negzero" and same_bits(back, dtype(0)))
            if not ok:
                viol("expansion2mpf", f"roundtrip:length={length}", f"expansion {e!r} -> {back!r}")
            if c not in ("inf",):
                sv = sum((F(float(t)) for t in e), F(0))
                if sv != (exact if c != "negzero" else F(0)):
                    viol("mpf2expansion", "intermediate-value", f"sum {e!r} = {sv}, expected {exact}")
        except Exception as ex:
            viol("mpf2expansion", f"raises:length={length}", f"{type(ex).__name__}: {ex}")
    if c in ("inf",):
        return
    for p in (None, 4, 5, f["p"]):
        for max_length in (None, 1, 2, 3):
            try:
                mw = u.mpf2multiword(dtype, m, p=p, max_length=max_length)
                if not (isinstance(mw, list) and all(type(t) is dtype for t in mw)):
                    viol("mpf2multiword", "type", f"got {mw!r}")
                    continue
                if max_length is not None and len(mw) > max_length:
                    viol("mpf2multiword", f"length:max_length={max_length}", f"len {len(mw)}")
                if c in ("zero", "negzero"):
                    sv = sum((F(float(t)) for t in mw), F(0))
                    if sv != 0:
                        viol("mpf2multiword", "intermediate-value", f"{mw!r}")
                    continue
                sv = sum((F(float(t)) for t in mw), F(0))
                if sv != exact:
                    viol("mpf2multiword", f"intermediate-value:p={p}:max_length={max_length}", f"sum {mw!r} = {sv}, expected {exact}")
                back = u.mpf2float(dtype, u.multiword2mpf(ctx, mw)) if mw else dtype(0)
                if not same_bits(back, x):
                    viol("multiword2mpf", f"roundtrip:p={p}:max_length={max_length}", f"{mw!r} -> {back!r}")
            except Exception as ex:
                viol("mpf2multiword", f"raises:p={p}:max_length={max_length}:{type(ex).__name__}", f"{type(ex).__name__}: {ex}")


def judge_cross(fa, part, src, dst, b, ctx):
    """A float of the wider type `src` converted to an expansion / multiword of the narrower type
    `dst`: exact whenever every bit of the value lies inside dst's range."""
    u = fa.utils
    fs, fd = FMT[src], FMT[dst]
    x = np.array(b, dtype=fs["ui"]).view(DT[src])[()]
    if not np.isfinite(x) or x == 0:
        return
    exact = decode(b, src)
    lowbit = F(2) ** (fd["emin"] - (fd["p"] - 1))
    if abs(exact) >= F(2) ** (fd["emax"] + 1) - F(2) ** (fd["emax"] - fd["p"] + 1) or (exact / lowbit).denominator != 1:
        bump(part, "cross_skipped_unrepresentable")
        return
    part["evaluations"] += 1
    part["nontrivial"] += 1
    dtype = DT[dst]
    m = u.float2mpf(ctx, x)
    case = {"dtype": src, "dst": dst, "bits": int(b), "conv": "cross"}
    try:
        e = u.mpf2expansion(dtype, m)
        sv = sum((F(float(t)) for t in e), F(0))
        if sv != exact or not all(type(t) is dtype for t in e):
            add_violation(part, f"mpf2expansion:cross:{src}->{dst}", f"{src} bits={b:#x} ({x!r}) -> {e!r} sums to {sv} != {exact}", case)
        bm = u.expansion2mpf(ctx, e)
        if mpf_value(bm) != exact:
            add_violation(part, f"expansion2mpf:cross:{src}->{dst}", f"{e!r} -> {bm._mpf_}", case)
    except Exception as ex:
        add_violation(part, f"mpf2expansion:cross:{src}->{dst}:raises", f"{type(ex).__name__}: {ex} on {src} bits={b:#x}", case)
    for p in (None, 4):
        try:
            mw = u.mpf2multiword(dtype, m, p=p)
            sv = sum((F(float(t)) for t in mw), F(0))
            if sv != exact:
                add_violation(part, f"mpf2multiword:cross:{src}->{dst}:p={p}", f"{src} bits={b:#x} ({x!r}) -> {mw!r} sums to {sv} != {exact}", case)
            if mpf_value(u.multiword2mpf(ctx, mw)) != exact:
                add_violation(part, f"multiword2mpf:cross:{src}->{dst}:p={p}", f"{mw!r}", case)
        except Exception as ex:
            add_violation(part, f"mpf2multiword:cross:{src}->{dst}:p={p}:raises", f"{type(ex).__name__}: {ex} on {src} bits={b:#x}", case)


def make_ctxs(dtname):
    import mpmath

    p = FMT[dtname]["p"]
    out = []
    for prec in (max(2, p // 2), p - 1, p, p + 1, 2 * p, 20 * p):
        ctx = mpmath.mp.clone()
        ctx.prec = prec
        out.append((prec, ctx))
    return out


def w_bits(task):
    fa = setup_repo_import()
    part = new_part()
    dtname = task["dtype"]
    ctxs = make_ctxs(dtname)
    for b in task["bits"]:
        judge(fa, part, dtname, int(b), ctxs)
    # the conversions take their precision from the float type, not from the ambient global mpmath context: repeat a
    # sub-lattice while mpmath.mp works at a precision below the type's
    import mpmath as _mp

    for amb in (11, 24):
        AMBIENT[0] = amb
        try:
            with _mp.workprec(amb):
                for b in list(task["bits"])[:: (5 if dtname == "float16" else 3)]:
                    judge(fa, part, dtname, int(b), ctxs)
        finally:
            AMBIENT[0] = None
    if task.get("cross"):
        src, dst = task["cross"]
        import mpmath

        ctx = mpmath.mp.clone()
        ctx.prec = 200
        for b in task["cross_bits"]:
            judge_cross(fa, part, src, dst, int(b), ctx)
    bs = task["bits"]
    if len(bs):
        part["samples"].append({"dtype": dtname, "bits_hex": [hex(int(b)) for b in bs[:3]]})
    return part


def run(run):
    thorough = run.tier == "thorough"
    tasks = []
    # float16: every bit pattern
    allb = np.arange(1 << 16, dtype=np.int64)
    step = 1 if thorough else 1
    for i in range(64):
        tasks.append(dict(dtype="float16", bits=allb[i::64][::step].tolist()))
    for dtname, nm in (("float32", 64 if thorough else 24), ("float64", 64 if thorough else 10)):
        lat = lattice.binade_lattice(DT[dtname], mantissas=nm, seed=run.seed, include_inf=True)
        bits = lat.view(FMT[dtname]["ui"]).astype(np.uint64)
        nanbits = [int(np.array(np.nan, dtype=DT[dtname]).view(FMT[dtname]["ui"]))]
        bl = [int(b) for b in bits] + nanbits
        nshard = 64
        for i in range(nshard):
            t = dict(dtype=dtname, bits=bl[i::nshard])
            if dtname == "float32":
                t["cross"] = ("float32", "float16")
                t["cross_bits"] = t["bits"]
            tasks.append(t)
    # cross: float32 values whose bits all lie in float16's range: sums of two float16 patterns
    # (complete product of a small float16 alphabet -> float32 exact sums)
    h = lattice.binade_lattice(np.float16, mantissas=6 if thorough else 3, seed=run.seed).astype(np.float32)
    sums = (h[:, None] + h[None, :]).ravel()
    sums = sums[np.isfinite(sums)]
    sb = np.unique(sums.view(np.uint32)).astype(np.int64).tolist()
    for i in range(32):
        tasks.append(dict(dtype="float32", bits=[], cross=("float32", "float16"), cross_bits=sb[i::32]))
    run.map(MOD, "w_bits", tasks)
    run.rule = (
        "every float16 bit pattern (all NaN payloads) and the float32/float64 all-binade x mantissa-pattern lattices through "
        "float2fraction/fraction2float, float2bin/bin2float, float2mpf/mpf2float (context precisions p,p+1,2p,20p), "
        "mpf2expansion/expansion2mpf (length None/1/2, functional 3), mpf2multiword/multiword2mpf (p in None,4,5,p x max_length "
        "None,1,2,3), plus float32 -> float16-expansion/multiword for all representable float32 lattice points and all sums of "
        "two float16 lattice values; non-trivial = finite non-zero patterns"
    )
    run.exhaustive = True
    run.coverage_extra["exhaustive_scope"] = "float16 (all 65536 patterns); float32/float64 on the stated lattice only"
    run.assumptions = ["integer decoding of IEEE-754 binary16/32/64 bit patterns", "mpmath mpf tuple (sign, man, exp, bc) denotes man*2**exp"]


def replay(case):
    fa = setup_repo_import()
    part = new_part()
    if case.get("conv") == "cross":
        import mpmath

        ctx = mpmath.mp.clone()
        ctx.prec = 200
        judge_cross(fa, part, case["dtype"], case["dst"], case["bits"], ctx)
    elif case.get("ambient"):
        import mpmath

        AMBIENT[0] = case["ambient"]
        try:
            with mpmath.workprec(case["ambient"]):
                judge(fa, part, case["dtype"], case["bits"], make_ctxs(case["dtype"]))
        finally:
            AMBIENT[0] = None
    else:
        judge(fa, part, case["dtype"], case["bits"], make_ctxs(case["dtype"]))
    return [(v["sig"], v["msg"]) for v in part["violations"]]
