"""C06 — StableHLO and XLA-client output is a faithful rendering of the graph.

Programs: every shipped request of the two targets (xla_client with the alternative constant
context, as results/update.py does) + the kind lattice over the kinds each target declares (outer x
inner x operand position, float and complex symbols) + constants of every class in every position.
The emitted text is parsed back by independent parsers (mc.parseback) into an operator tree with
bindings resolved, and compared with the graph under an independently written kind -> operator
table: same operator, same operand order, comparison direction, named-constant operators,
ConstantLike/ScalarLike attached to a bound operand of the right element class; every `:$ref` /
`XlaOp name =` binding occurs exactly once and textually before its first use.  No execution.
"""

from __future__ import annotations

import math
import re

import numpy as np

from mc import gen, parseback
from mc.checks.c08 import build_recipe, skeleton, twin_constant_programs
from mc.harness import add_violation, bump, new_part, quiet, setup_repo_import

PROPERTY = "C06"
LEVEL = "exploration"
MOD = "mc.checks.c06"

HLO = dict(
    absolute="StableHLO_AbsOp", negative="StableHLO_NegOp", add="StableHLO_AddOp", subtract="StableHLO_SubtractOp", multiply="StableHLO_MulOp", divide="StableHLO_DivOp",
    logical_and="StableHLO_AndOp", logical_or="StableHLO_OrOp", logical_xor="StableHLO_XorOp", logical_not="StableHLO_NotOp", maximum="StableHLO_MaxOp", minimum="StableHLO_MinOp",
    atan2="StableHLO_Atan2Op", cos="StableHLO_CosineOp", sin="StableHLO_SineOp", exp="StableHLO_ExpOp", expm1="StableHLO_Expm1Op", log="StableHLO_LogOp", log1p="StableHLO_Log1pOp",
    sign="StableHLO_SignOp", real="StableHLO_RealOp", imag="StableHLO_ImagOp", complex="StableHLO_ComplexOp", sqrt="StableHLO_SqrtOp", select="StableHLO_SelectOp",
    is_finite="StableHLO_IsFiniteOp", nextafter="CHLO_NextAfterOp", asin="CHLO_AsinOp", acos="CHLO_AcosOp", atan="CHLO_AtanOp", asinh="CHLO_AsinhOp", acosh="CHLO_AcoshOp",
    atanh="CHLO_AtanhOp", asin_acos_kernel="CHLO_AsinAcosKernelOp", bitwise_left_shift="StableHLO_ShiftLeftOp", bitwise_right_shift="StableHLO_ShiftRightArithmeticOp",
)
HLO_NAMED = dict(largest="StableHLO_ConstantLikeMaxFiniteValue", smallest="StableHLO_ConstantLikeSmallestNormalizedValue", posinf="StableHLO_ConstantLikePosInfValue", neginf="StableHLO_ConstantLikeNegInfValue")
XLA = dict(
    absolute="Abs", negative="Neg", add="Add", subtract="Sub", multiply="Mul", divide="Div", remainder="Rem", pow="Pow", logical_and="And", logical_or="Or", logical_xor="Xor",
    logical_not="Not", maximum="Max", minimum="Min", acos="Acos", acosh="Acosh", asin="Asin", asinh="Asinh", atan="Atan", atanh="Atanh", atan2="Atan2", cos="Cos", cosh="Cosh",
    sin="Sin", sinh="Sinh", tan="Tan", tanh="Tanh", exp="Exp", expm1="Expm1", log="Log", log1p="Log1p", ceil="Ceil", floor="Floor", round="Round", sign="Sign", real="Real",
    imag="Imag", complex="Complex", square="Square", sqrt="Sqrt", select="Select", lt="Lt", le="Le", gt="Gt", ge="Ge", eq="Eq", ne="Ne", is_finite="IsFinite", is_inf="IsInf",
    is_posinf="IsPosInf", is_neginf="IsNegInf", is_nan="IsNan", is_negzero="IsNegZero", nextafter="NextAfter", log2="Log2", log10="Log10",
)
CPP_CALL = dict(absolute="std::abs", sqrt="std::sqrt", log="std::log", log1p="std::log1p", exp="std::exp", maximum="std::max", minimum="std::min", sin="std::sin", cos="std::cos",
                atan2="std::atan2", log2="std::log2", log10="std::log10", expm1="std::expm1", floor="std::floor", ceil="std::ceil")
CPP_BIN = dict(add="+", subtract="-", multiply="*", divide="/", lt="<", le="<=", gt=">", ge=">=", eq="==", ne="!=", logical_and="&&", logical_or="||")
REAL_KINDS = {"real", "imag", "absolute", "atan2", "lt", "le", "gt", "ge", "eq", "ne", "is_finite", "logical_and", "logical_or", "logical_not", "logical_xor", "hypot"}


def expr_is_complex(e, memo):
    k = id(e)
    if k in memo:
        return memo[k]
    if e.kind == "symbol":
        r = "complex" in str(e.operands[1])
    elif e.kind == "constant":
        r = isinstance(e.operands[0], complex) or expr_is_complex(e.operands[1], memo)
    elif e.kind == "complex":
        r = True
    elif e.kind in REAL_KINDS:
        r = False
    elif e.kind == "select":
        r = expr_is_complex(e.operands[1], memo) or expr_is_complex(e.operands[2], memo)
    else:
        r = any(hasattr(o, "kind") and expr_is_complex(o, memo) for o in e.operands)
    memo[k] = r
    return r


def same_constant(a, b, cmemo):
    """two distinct constant expressions that may legitimately share one binding: same value (bitwise
    for floats) and likes of the same element class."""
    if a.kind != "constant" or b.kind != "constant":
        return False
    va, vb = a.operands[0], b.operands[0]
    if hasattr(va, "kind") or hasattr(vb, "kind"):
        return hasattr(va, "kind") and hasattr(vb, "kind") and va is vb
    if type(va) is not type(vb) or repr(va) != repr(vb):
        return False
    return expr_is_complex(a.operands[1], cmemo) == expr_is_complex(b.operands[1], cmemo)


class Mismatch(Exception):
    def __init__(self, cls, msg):
        super().__init__(msg)
        self.cls = cls


def num_equal(text, value):
    try:
        if isinstance(value, (bool, np.bool_)):
            return text in (str(value), str(value).lower(), str(int(value)))
        t = text.strip()
        if re.fullmatch(r"[-+]?(\d+\.?\d*|\.\d+)([eE][-+]?\d+)?[fFlLuU]+", t):
            t = t.rstrip("fFlLuU")  # C literal suffixes (not the f of "inf")
        a, b = float(t), float(value)
        return a == b or (math.isnan(a) and math.isnan(b))
    except Exception:
        return False


# ------------------------------------------------------------------ StableHLO


def check_stablehlo(fa, graph, text):
    name, args, body = parseback.parse_td_pattern(text)
    gargs = list(graph.operands[1:-1])
    if [a[1] for a in args] != [a.ref for a in gargs]:
        raise Mismatch("argument-list", f"pattern arguments {args} vs graph {[a.ref for a in gargs]}")
    cmemo = {}
    for (t, n), a in zip(args, gargs):
        want = "ComplexElementType" if expr_is_complex(a, cmemo) else "NonComplexElementType"
        if t != want:
            raise Mismatch("argument-type", f"argument ${n} declared {t}, graph type is {a.operands[1]}")
    bound = {n: ("arg", a) for (t, n), a in zip(args, gargs)}  # name -> (parsed node | 'arg', Expr)
    order = []

    def walk(node):  # textual order: binding must precede use, exactly once
        if isinstance(node, parseback.SRef):
            if node.name not in bound:
                raise Mismatch("reference-before-binding", f"${node.name} is referenced before (or without) being bound")
            return
        if node.ref:
            if node.ref in bound:
                raise Mismatch("duplicate-binding", f":${node.ref} is bound more than once")
        for a in node.args:
            walk(a)
            # note: TableGen binds a name at the node; inner uses of the same name would precede it -- handled by order below

    # binding pass in textual position order
    nodes = []

    def collect(node):
        nodes.append(node)
        if isinstance(node, parseback.SNode):
            for a in node.args:
                collect(a)

    collect(body)
    nodes.sort(key=lambda n: n.pos)
    for n in nodes:
        if isinstance(n, parseback.SRef):
            if n.name not in bound:
                raise Mismatch("reference-before-binding", f"${n.name} is referenced before (or without) being bound")
        elif n.ref:
            if n.ref in bound:
                raise Mismatch("duplicate-binding", f":${n.ref} is bound more than once")
            bound[n.ref] = (n, None)
    name_expr = {n: a for (t, n), a in zip(args, gargs)}
    shared = [0]

    def cmp(e, node, depth=0):
        while e.kind == "positive" and False:
            e = e.operands[0]
        if isinstance(node, parseback.SRef):
            tgt = bound[node.name]
            if node.name in name_expr:
                if name_expr[node.name] is not e:
                    if same_constant(name_expr[node.name], e, cmemo):
                        shared[0] += 1
                        return
                    raise Mismatch("reference-denotes-other-expression", f"${node.name} is used for `{e.kind}` node but was bound to a different expression ({name_expr[node.name].kind})")
                return
            # bound later in cmp order? compare against the bound node
            name_expr[node.name] = e
            cmp(e, tgt[0], depth + 1)
            return
        if node.ref:
            prev = name_expr.get(node.ref)
            if prev is not None and prev is not e:
                raise Mismatch("binding-denotes-other-expression", f":${node.ref} binds `{e.kind}` but the name also denotes another expression")
            name_expr[node.ref] = e
        k = e.kind
        if k == "symbol":
            raise Mismatch("symbol-rendered-as-operator", f"symbol {e.operands[0]} rendered as {node.op}")
        if k == "constant":
            value, like = e.operands
            if isinstance(value, str):
                want = HLO_NAMED.get(value)
                if value == "pi":
                    ok = node.op == "StableHLO_ConstantLike" and node.attr == "M_PI"
                elif want is None:
                    raise Mismatch(f"named-constant-without-operator:{value}", f"named constant {value} has no StableHLO constant operator; rendered as {node.op}<{node.attr}>")
                else:
                    ok = node.op == want
                if not ok:
                    raise Mismatch(f"named-constant-operator:{value}", f"constant {value} rendered as {node.op}<{node.attr}>")
            else:
                if node.op != "StableHLO_ConstantLike" or node.attr is None or not num_equal(node.attr, value):
                    # class of the value, so that a recorded finding about one class does not hide another
                    vcls = "python-complex-literal" if type(value) is complex else ("numpy-scalar" if isinstance(value, np.generic) else type(value).__name__)
                    raise Mismatch(f"constant-value:{vcls}", f"constant {value!r} rendered as {node.op}<{node.attr}>")
            if len(node.args) != 1:
                raise Mismatch("constant-like-operand", f"constant {value!r}: like operand is {node.args}")
            if isinstance(node.args[0], parseback.SNode):
                # the like expression is printed inline (and may bind its own name there)
                cmp(like, node.args[0], depth + 1)
                return
            ln = node.args[0].name
            le = name_expr.get(ln)
            if le is None:
                cmp(like, node.args[0], depth + 1)
                le = name_expr.get(ln)
            if le is None:
                raise Mismatch("constant-like-unresolved", f"constant {value!r} is attached to ${ln} whose expression is not yet known at this point")
            if expr_is_complex(le, cmemo) != expr_is_complex(like, cmemo):
                raise Mismatch("constant-like-element-class", f"constant {value!r} is attached to ${ln} ({'complex' if expr_is_complex(le, cmemo) else 'real'}) but its like is {'complex' if expr_is_complex(like, cmemo) else 'real'}")
            return
        if k in ("lt", "le", "gt", "ge", "eq", "ne"):
            if node.op != "StableHLO_CompareOp" or len(node.args) != 4:
                raise Mismatch("compare-shape", f"{k} rendered as {node.op} with {len(node.args)} operands")
            d = node.args[2]
            if not (isinstance(d, parseback.SNode) and d.op == "StableHLO_ComparisonDirectionValue" and d.attr == k.upper()):
                raise Mismatch(f"comparison-direction:{k}", f"{k} rendered with direction {getattr(d, 'attr', d)}")
            cmp(e.operands[0], node.args[0], depth + 1)
            cmp(e.operands[1], node.args[1], depth + 1)
            return
        want = HLO.get(k)
        if want is None:
            raise Mismatch(f"kind-without-operator:{k}", f"no StableHLO/CHLO operator implements `{k}`; rendered as {node.op}")
        if node.op != want:
            raise Mismatch(f"operator:{k}", f"`{k}` rendered as {node.op}, expected {want}")
        if len(node.args) != len(e.operands):
            raise Mismatch(f"operand-count:{k}", f"`{k}` has {len(e.operands)} operands, rendered with {len(node.args)}")
        for o, a in zip(e.operands, node.args):
            cmp(o, a, depth + 1)

    cmp(graph.operands[-1], body)
    return len(nodes)


# ------------------------------------------------------------------ XLA client


def check_xla(fa, graph, text):
    f = parseback.parse_c_function(text)
    gargs = list(graph.operands[1:-1])
    if [a[1] for a in f["args"]] != [str(a.operands[0]) for a in gargs]:
        raise Mismatch("argument-list", f"function arguments {f['args']} vs graph {[str(a.operands[0]) for a in gargs]}")
    bound = {}
    for t, n in f["args"]:
        bound[n] = ("arg", t, None)
    for t, v, e in f["stmts"]:
        used = set()

        def ids(n):
            if n.kind == "id":
                used.add(n.name)
            for a in n.args:
                ids(a)

        ids(e)
        for u in used:
            if u not in bound and re.match(r"^[a-z_][A-Za-z0-9_]*$", u) and not u.startswith("std"):
                if u in ("eps", "smallest_subnormal", "nan", "undefined", "largest", "smallest", "posinf", "neginf"):
                    raise Mismatch(f"named-constant-without-operator:{u}", f"named constant `{u}` is emitted as a bare identifier in the definition of `{v}`")
                e0 = parseback.strip_parens(e)
                where = "like-operand-of-ScalarLike" if (e0.kind == "call" and e0.name == "ScalarLike" and e0.args and parseback.strip_parens(e0.args[0]).name == u) else "operand"
                raise Mismatch(f"reference-before-binding:{where}", f"`{u}` is used in the definition of `{v}` before being defined")
        if v in bound:
            raise Mismatch("duplicate-binding", f"`{v}` is assigned more than once")
        bound[v] = ("stmt", t, e)
    name_expr = {str(a.operands[0]): a for a in gargs}
    cmemo = {}
    Expr = fa.Expr

    def cmp_const(v, node):
        """v: Python value or Expr of the alternative (constant) context; node: C expression."""
        node = parseback.strip_parens(node)
        if isinstance(v, Expr):
            if node.kind == "id" and node.name in bound and bound[node.name][0] == "stmt":
                prev = name_expr.get(node.name)
                if prev is not None and prev is not v:
                    if prev.kind == "constant" and v.kind == "constant" and not hasattr(prev.operands[0], "kind") and repr(prev.operands[0]) == repr(v.operands[0]):
                        return
                    raise Mismatch("binding-denotes-other-expression", f"`{node.name}` denotes two different constant expressions")
                name_expr[node.name] = v
                return cmp_const(v, bound[node.name][2])
            if v.kind == "constant":
                return cmp_const(v.operands[0], node)
            if v.kind == "negative":
                if node.kind == "unary" and node.name == "-":
                    return cmp_const(v.operands[0], node.args[0])
                raise Mismatch("constant-expression:negative", f"negative rendered as {node}")
            if v.kind in CPP_BIN:
                if node.kind == "bin" and node.name == CPP_BIN[v.kind]:
                    cmp_const(v.operands[0], node.args[0])
                    cmp_const(v.operands[1], node.args[1])
                    return
                raise Mismatch(f"constant-expression:{v.kind}", f"{v.kind} rendered as {node}")
            if v.kind in CPP_CALL:
                if node.kind == "call" and node.name == CPP_CALL[v.kind] and len(node.args) == len(v.operands):
                    for o, a in zip(v.operands, node.args):
                        cmp_const(o, a)
                    return
                raise Mismatch(f"constant-expression:{v.kind}", f"{v.kind} rendered as {node}")
            if v.kind == "select":
                if node.kind == "ternary":
                    for o, a in zip(v.operands, node.args):
                        cmp_const(o, a)
                    return
                raise Mismatch("constant-expression:select", f"select rendered as {node}")
            if v.kind == "symbol":
                return
            raise Mismatch(f"constant-expression-kind:{v.kind}", f"unsupported constant expression kind {v.kind}")
        if isinstance(v, str):
            want = {"largest": "max", "smallest": "min", "posinf": "infinity", "neginf": "infinity"}.get(v)
            txt = repr(node)
            if v == "pi":
                ok = node.kind == "id" and node.name == "M_PI"
            elif want is None:
                raise Mismatch(f"named-constant-without-operator:{v}", f"named constant {v} rendered as {node}")
            else:
                ok = f"::{want}" in txt and "numeric_limits" in txt and ((v == "neginf") == (node.kind == "unary" and node.name == "-"))
            if not ok:
                raise Mismatch(f"named-constant-operator:{v}", f"constant {v} rendered as {node}")
            return
        if node.kind == "unary" and node.name == "-" and node.args[0].kind == "num":
            if not num_equal("-" + node.args[0].name, v):
                raise Mismatch("constant-value", f"constant {v!r} rendered as {node}")
            return
        if node.kind == "num":
            if not num_equal(node.name, v):
                raise Mismatch("constant-value", f"constant {v!r} rendered as {node}")
            return
        if node.kind == "id" and node.name in ("true", "false") and isinstance(v, (bool, np.bool_)):
            if (node.name == "true") != bool(v):
                raise Mismatch("constant-value", f"constant {v!r} rendered as {node}")
            return
        txt = repr(node)
        if isinstance(v, float) and math.isinf(v) and "infinity" in txt:
            if (v < 0) != (node.kind == "unary"):
                raise Mismatch("constant-value", f"constant {v!r} rendered as {node}")
            return
        raise Mismatch("constant-value", f"constant {v!r} rendered as {node}")

    def cmp(e, node):
        node = parseback.strip_parens(node)
        while e.kind == "positive":
            e = e.operands[0]
        if node.kind == "id":
            nm = node.name
            if nm not in bound:
                raise Mismatch("unbound-reference", f"`{nm}` is not an argument and is never defined")
            prev = name_expr.get(nm)
            if prev is not None:
                if prev is not e:
                    if same_constant(prev, e, cmemo):
                        return
                    raise Mismatch("reference-denotes-other-expression", f"`{nm}` is used for a `{e.kind}` node but denotes another expression ({prev.kind})")
                return
            name_expr[nm] = e
            b = bound[nm]
            if b[0] == "arg":
                raise Mismatch("argument-denotes-expression", f"argument `{nm}` used where a `{e.kind}` node is expected")
            return cmp(e, b[2])
        k = e.kind
        if k == "symbol":
            raise Mismatch("symbol-rendered-as-expression", f"symbol {e.operands[0]} rendered as {node}")
        if k == "constant":
            value, like = e.operands
            if not (node.kind == "call" and node.name == "ScalarLike" and len(node.args) == 2):
                raise Mismatch("constant-not-ScalarLike", f"constant {value!r} rendered as {node}")
            ref = parseback.strip_parens(node.args[0])
            if ref.kind != "id" or ref.name not in bound:
                raise Mismatch("constant-like-unbound", f"ScalarLike refers to `{ref}` which is not defined")
            le = name_expr.get(ref.name)
            if le is None:
                cmp(like, ref)  # the name must denote the like-expression of the constant
                le = name_expr.get(ref.name)
            if le is None:
                raise Mismatch("constant-like-unresolved", f"ScalarLike refers to `{ref.name}` whose expression is not known at this point")
            if expr_is_complex(le, cmemo) != expr_is_complex(like, cmemo):
                raise Mismatch("constant-like-element-class", f"ScalarLike({ref.name}, ...) attaches a {'complex' if expr_is_complex(like, cmemo) else 'real'}-typed constant to a {'complex' if expr_is_complex(le, cmemo) else 'real'} operand")
            cmp_const(value, node.args[1])
            return
        if k == "positive":
            return cmp(e.operands[0], node)
        want = XLA.get(k)
        if want is None:
            raise Mismatch(f"kind-without-operator:{k}", f"no XLA client builder function implements `{k}`; rendered as {node}")
        if not (node.kind == "call" and node.name == want):
            raise Mismatch(f"operator:{k}", f"`{k}` rendered as {node.name if node.kind == 'call' else node}, expected {want}(...)")
        if len(node.args) != len(e.operands):
            raise Mismatch(f"operand-count:{k}", f"`{k}`: {len(e.operands)} operands rendered with {len(node.args)}")
        for o, a in zip(e.operands, node.args):
            cmp(o, a)

    cmp(graph.operands[-1], f["ret_expr"])
    # every defined XlaOp variable must have been reached from the result (no dangling bindings is not required),
    return len(f["stmts"]) + 1


# ------------------------------------------------------------------ programs


def lattice_programs(target_name):
    table = HLO if target_name == "stablehlo" else XLA
    x, y = ("x",), ("y",)
    un = [k for k in ("absolute", "negative", "positive", "sqrt", "exp", "log", "log1p", "sin", "cos", "sign", "real", "imag", "floor", "ceil", "square", "is_finite", "logical_not", "expm1") if True]
    bn = ["add", "subtract", "multiply", "divide", "maximum", "minimum", "atan2", "complex", "pow", "remainder", "nextafter"]
    # every further kind for which either reference table or the target's own table has an entry (arity from the template)
    fa_ = setup_repo_import()
    pk = getattr(fa_.targets, target_name).kind_to_target
    skip = {"select", "lt", "le", "gt", "ge", "eq", "ne", "logical_and", "logical_or", "logical_xor", "logical_not", "list", "item", "apply", "symbol", "constant"}
    for k in sorted(set(table) | {k_ for k_, v_ in pk.items() if v_ is not NotImplemented}):
        if k in skip or k in un or k in bn or k.startswith("bitwise") or k == "asin_acos_kernel":
            continue
        tmpl = pk.get(k)
        arity = 2 if (isinstance(tmpl, str) and "{1}" in tmpl) or k in ("hypot", "copysign", "floor_divide") else 1
        (bn if arity == 2 else un).append(k)
    cmps = ["lt", "le", "gt", "ge", "eq", "ne"]
    progs = [(k, x) for k in un if k != "logical_not"] + [(k, x, y) for k in bn + cmps]
    progs += [("logical_not", ("lt", x, y)), ("logical_and", ("lt", x, y), ("gt", x, y)), ("logical_or", ("le", x, y), ("ne", x, y)), ("logical_xor", ("le", x, y), ("ne", x, y))]
    progs += [("select", (c, x, y), x, y) for c in cmps] + [("select", (c, x, y), y, x) for c in cmps[:2]]
    inner = [(k, x) for k in ("absolute", "negative", "sqrt", "exp", "log")] + [(k, x, y) for k in ("add", "subtract", "multiply", "divide", "maximum")]
    for k in ("negative", "absolute", "sqrt", "log1p", "sign"):
        for i in inner:
            progs.append((k, i))
    for k in bn[:7] + cmps:
        for i in inner:
            progs.append((k, i, y))
            progs.append((k, x, i))
    for i in inner:
        progs += [("select", ("lt", x, y), i, y), ("select", ("lt", i, y), x, i), ("add", i, i), ("multiply", ("add", i, y), i)]
    consts = [("c", 0), ("c", 1), ("c", 0.5), ("c", -2.5), ("c", 2), ("c", math.inf), ("c", -math.inf), ("c", -0.0), ("n", "largest"), ("n", "smallest"), ("n", "posinf"), ("n", "neginf"), ("n", "pi"), ("n", "eps")]
    consts += [("c", np.float32(1.5)), ("c", np.float64(0.1)), ("c", np.float32(-0.0))]
    for c in consts:
        progs += [("add", x, c), ("subtract", c, x), ("multiply", ("add", x, c), c), ("select", ("lt", x, c), c, y), ("lt", c, x), ("maximum", x, c)]
    # constant-only sub-trees (compile-time constant expressions of the alt context for xla_client)
    c3, c4, cm = ("c", 3.0), ("c", 4.0), ("c", -1.5)
    for ce in (("negative", ("add", c3, c4)), ("negative", cm), ("subtract", c3, ("multiply", c4, cm)), ("divide", c3, ("add", c4, cm)), ("sqrt", c4), ("negative", ("negative", c3)),
               ("multiply", ("negative", c3), c4), ("subtract", ("negative", c3), ("negative", c4)), ("add", ("n", "pi"), cm), ("maximum", c3, cm)):
        progs += [("multiply", x, ce), ("add", ce, y), ("select", ("lt", x, ce), x, ce)]
    progs += twin_constant_programs()
    seen, out = set(), []
    for r in progs:
        if r not in seen:
            seen.add(r)
            out.append(r)
    return out


def judge(fa, part, target_name, graph, text, case, label):
    part["evaluations"] += 1
    try:
        n = (check_stablehlo if target_name == "stablehlo" else check_xla)(fa, graph, text)
        part["nontrivial"] += 1
        bump(part, "parsed_nodes", n)
    except Mismatch as m:
        add_violation(part, f"{target_name}:{m.cls}", f"{label}: {m}\n--- emitted text ---\n{text[:1500]}", case)
    except ValueError as e:
        add_violation(part, f"{target_name}:unparsable", f"{label}: emitted text cannot be parsed: {e}\n{text[:800]}", case)


def w_shipped(task):
    fa = setup_repo_import()
    part = new_part()
    for req in task["reqs"]:
        req = tuple(req)
        with quiet():
            try:
                g, target = gen.build_graph(fa, req)
                text = g.tostring(target)
            except NotImplementedError:
                bump(part, "not_implemented")
                continue
            except Exception as e:
                add_violation(part, f"{req[0]}:printing-raises:{type(e).__name__}", f"{req}: {type(e).__name__}: {str(e)[:300]}", {"req": list(req)})
                continue
        judge(fa, part, req[0], g, text, {"req": list(req)}, str(req))
    if task["reqs"]:
        part["samples"].append({"shipped": task["reqs"][0]})
    return part


def make_graph(fa, target_name, recipe, tx, ty):
    target = getattr(fa.targets, target_name)
    enable_alt, dct = (True, "FloatType") if target_name == "xla_client" else (False, None)

    def f(ctx, x, y):
        return build_recipe(fa, ctx, recipe, {"x": x, "y": y})

    ctx = fa.Context(paths=[fa.algorithms], enable_alt=enable_alt, default_constant_type=dct)
    g = ctx.trace(f, f"x:{tx}", f"y:{ty}").rewrite(target)
    return g, target


def w_lattice(task):
    fa = setup_repo_import()
    part = new_part()
    tn = task["target"]
    progs = lattice_programs(tn)[task["lo"]::task["stride"]]
    for recipe in progs:
        for tx, ty in (("float", "float"), ("complex", "complex"), ("float", "complex")):
            for simplify in (False, True):
                case = {"target": tn, "recipe": repr(recipe), "tx": tx, "ty": ty, "simplify": simplify}
                with quiet():
                    try:
                        g, target = make_graph(fa, tn, recipe, tx, ty)
                        if simplify:
                            g = g.rewrite(fa.rewrite)
                        text = g.tostring(target)
                    except (NotImplementedError, TypeError, AssertionError, AttributeError, KeyError) as e:
                        bump(part, "not_accepted_" + type(e).__name__)
                        continue
                    except Exception as e:
                        bump(part, "not_accepted_" + type(e).__name__)
                        continue
                judge(fa, part, tn, g, text, case, f"{skeleton(recipe)} [x:{tx}, y:{ty}, simplify={simplify}]")
    if progs:
        part["samples"].append({"lattice_program": skeleton(progs[len(progs) // 2]), "target": tn})
    return part


def run(run):
    fa = setup_repo_import()
    reqs = gen.requests(fa, ["stablehlo", "xla_client"])
    run.map(MOD, "w_shipped", [dict(reqs=[list(r) for r in reqs[i::32]]) for i in range(32)])
    tasks = []
    for tn in ("stablehlo", "xla_client"):
        n = len(lattice_programs(tn))
        run.counters[f"lattice_programs_{tn}"] = n
        for lo in range(32):
            tasks.append(dict(target=tn, lo=lo, stride=32))
    run.map(MOD, "w_lattice", tasks)
    run.coverage_extra["programs"] = int(run.evaluations)
    run.rule = (
        f"{len(reqs)} shipped requests of stablehlo/xla_client (alt constant context for xla_client) and the kind lattice (outer x inner x position; constants of every class in every "
        "position; comparisons, select, logical ops) under (float,float), (complex,complex), (float,complex) symbols, with and without fa.rewrite; text parsed back by an independent "
        "S-expression / C parser and compared node by node with the graph under an independent kind->operator table; binding discipline checked in textual order; "
        "non-trivial = programs that were accepted, printed and fully matched or judged"
    )
    run.exhaustive = True
    run.coverage_extra["exhaustive_scope"] = "all shipped requests and the complete declared lattice; deeper programs are not covered"
    run.assumptions = ["the operator tables HLO/XLA in this file (written from the StableHLO/CHLO op names and the XLA client builder API) are the authority for 'the operator that implements a kind'", "no execution: text only"]


def replay(case):
    fa = setup_repo_import()
    part = new_part()
    if "req" in case:
        part = w_shipped(dict(reqs=[case["req"]]))
    else:
        recipe = eval(case["recipe"])
        with quiet():
            g, target = make_graph(fa, case["target"], recipe, case["tx"], case["ty"])
            if case["simplify"]:
                g = g.rewrite(fa.rewrite)
            text = g.tostring(target)
        judge(fa, part, case["target"], g, text, case, skeleton(recipe))
    return [(v["sig"], v["msg"][:600]) for v in part["violations"]]
