"""Shared request catalogue: every (target, function, signature) of the targets' `trace_arguments`
tables, generated with the pipeline of results/update.py."""

from __future__ import annotations

import hashlib

from mc.harness import quiet

TARGETS = ["cpp", "numpy", "python", "stablehlo", "xla_client"]


def requests(fa, targets=TARGETS):
    out = []
    for tname in targets:
        target = getattr(fa.targets, tname)
        for fname in target.trace_arguments:
            for i, atypes in enumerate(target.trace_arguments[fname]):
                out.append((tname, fname, i))
    return out


# ---------------------------------------------------------------- extended catalogue (C09)
# synthetic algorithm definitions: unnamed non-integer constants used more than once, named references inside ctx.call
# scopes, three arguments assumed to share a dtype -- the shapes whose emitted names depend on process-global tables


def syn_blend(ctx, x, y):
    return (x + y) * 0.5 + ctx.sqrt(x * y) * 0.5


def syn_poly(ctx, x):
    return ((x * 1.5 + 0.75) * x + 1.5) * x + 0.75


def _syn_helper(ctx, a, b):
    t = a * b + a
    return ctx(t * t)


def syn_scoped(ctx, x, y):
    u = ctx.call(_syn_helper, (x, y))
    v = ctx.call(_syn_helper, (y, x))
    w = ctx.call(_syn_helper, (x + y, x))
    t = u + v
    return ctx(t * w)


def syn_muladd(ctx, x, y, z):
    ctx._assume_same_dtype(x, y, z)
    return x * y + z


SYN = {"syn_blend": (syn_blend, 2), "syn_poly": (syn_poly, 1), "syn_scoped": (syn_scoped, 2), "syn_muladd": (syn_muladd, 3)}
SYN_TYPES = {"python": ["float"], "numpy": ["float32", "float64"], "cpp": ["float32", "float64"], "stablehlo": ["float"], "xla_client": ["float"], "lax": ["float32", "float64", "ArrayLike"]}

# the entries of tools/generate_apmath_lax.py (function, argument types, keyword arguments)
APMATH_LAX = [
    ("two_sum", ("x:ArrayLike", "y:ArrayLike"), dict(fix_overflow=False, override_name="two_sum_unsafe", assume_fma=False)),
    ("two_sum", ("x:ArrayLike", "y:ArrayLike"), dict(fix_overflow=True, override_name="two_sum_general", assume_fma=False)),
    ("two_prod", ("x:ArrayLike", "y:ArrayLike"), dict(scale=False, fix_overflow=False, override_name="two_prod_unsafe", assume_fma=False)),
    ("two_prod", ("x:ArrayLike", "y:ArrayLike"), dict(scale=True, fix_overflow=True, override_name="two_prod_general", assume_fma=False)),
    ("fma", ("x:ArrayLike", "y:ArrayLike", "z:ArrayLike"), dict(fix_overflow=False, override_name="fma_unsafe", assume_fma=False, algorithm="apmath", functional=True, scale=False, size=None, possibly_zero_z=False)),
    ("fma", ("x:ArrayLike", "y:ArrayLike", "z:ArrayLike"), dict(fix_overflow=True, override_name="fma_general", assume_fma=False, algorithm="a7", functional=True, scale=True, size=None, possibly_zero_z=True)),
]


# definitions with the same signature whose bodies share sub-expressions built in different orders (for histories on ONE Context)
def ru_a(ctx, x, y):
    return ctx.select(x == y, x, -y)


def ru_b(ctx, x, y):
    return ctx.select(ctx.logical_or(x < y, x == y), x, y)


def ru_c(ctx, x, y):
    return ctx.select(ctx.logical_and(x == y, x < y), x + y, y)


def ru_d(ctx, x, y):
    s = (x + y) * (x - y)
    return ctx.select(x < y, s, s * s)


def ru_e(ctx, x, y):
    d = (x - y) * (x + y)
    return d + ctx.select(ctx.logical_or(x == y, y < x), d, x)


def ru_f(ctx, x, y):
    return ctx.select(ctx.logical_and(ctx.logical_or(y < x, x == y), x < y), abs(x), abs(y) + x)


REUSE_FUNCS = [ru_a, ru_b, ru_c, ru_d, ru_e, ru_f]
REUSE_TARGETS = {"python": "float", "numpy": "float32", "cpp": "float64", "stablehlo": "float", "xla_client": "float"}


def reuse_generate(fa, tname, seq):
    """texts of the functions REUSE_FUNCS[i] for i in seq, all traced and emitted on ONE Context (same argument types)"""
    target = getattr(fa.targets, tname)
    t = REUSE_TARGETS[tname]
    enable_alt, dct = (True, "FloatType") if tname == "xla_client" else (False, None)
    out = []
    with quiet():
        ctx = fa.Context(paths=[fa.algorithms], enable_alt=enable_alt, default_constant_type=dct)
        for i in seq:
            try:
                g = ctx.trace(REUSE_FUNCS[i], f"x:{t}", f"y:{t}").implement_missing(target).simplify()
                out.append(g.tostring(target))
            except Exception as e:
                out.append(f"!{type(e).__name__}: {e}")
    return out


_GENERATED_NAME = None


def alpha(text):
    """the text with generated variable names (kind_<n>, _prefix_<n>_) renamed in order of first appearance"""
    import re

    global _GENERATED_NAME
    if _GENERATED_NAME is None:
        _GENERATED_NAME = re.compile(r"\b(?:[A-Za-z]+(?:_[A-Za-z0-9]+)*_\d+|_\w+?_\d+_)\b")
    names = {}

    def sub(m):
        return names.setdefault(m.group(0), f"v{len(names)}")

    return "".join(_GENERATED_NAME.sub(sub, text).split())  # layout (line breaks chosen by the formatters) is not compared


# ---- requests that share one user-supplied `parameters` dict (Context keeps the caller's dict by reference)
SHARED_PARAMS = {"verif_shared_parameters": 1}


def shared_params_generate(fa, reqs, params):
    """texts of the requests, every Context constructed with the SAME dict object `params`"""
    out = []
    for req in reqs:
        tname, fname, i = req
        target = getattr(fa.targets, tname)
        with quiet():
            try:
                atypes = target.trace_arguments[fname][i]
                enable_alt, dct = (True, "FloatType") if tname == "xla_client" else (False, None)
                ctx = fa.Context(paths=[fa.algorithms], enable_alt=enable_alt, default_constant_type=dct, parameters=params)
                graph = ctx.trace(getattr(fa.algorithms, fname), *atypes).implement_missing(target).simplify()
                graph.props.update(name=f"{fname}_{i}")
                out.append(graph.tostring(target))
            except NotImplementedError as e:
                out.append(f"!NotImplementedError: {e}")
            except Exception as e:
                out.append(f"!{type(e).__name__}: {e}")
    return out


# ---- user definitions registered in the global definition registry between requests
def _user_real_tan(ctx, z):
    return ctx.sin(z) / ctx.cos(z) + z * 0


def _user_real_square(ctx, x):
    ax = abs(x)
    return ctx(ax * ax)


USER_DEFS = {"tan": ("real", _user_real_tan, "numpy", ":float32"), "square": ("real", _user_real_square, "python", ":float")}


def registry_history(fa, name, events):
    """events: list of "reg" / "gen"; returns the texts of the "gen" events"""
    domain, func, tname, atype = USER_DEFS[name]
    target = getattr(fa.targets, tname)
    out = []
    for ev in events:
        if ev == "reg":
            with quiet():
                fa.algorithms.definition(name, domain=domain)(func)
        else:
            with quiet():
                try:
                    ctx = fa.Context(paths=[fa.algorithms])
                    g = ctx.trace(getattr(fa.algorithms, name), atype).implement_missing(target).simplify()
                    out.append(g.tostring(target))
                except NotImplementedError as e:
                    out.append(f"!NotImplementedError: {e}")
                except Exception as e:
                    out.append(f"!{type(e).__name__}: {e}")
    return out


def extra_requests(fa):
    """requests beyond the five trace_arguments tables: the lax table, the apmath->lax generator entries, synthetic definitions."""
    out = [r for r in requests(fa, ["lax"])]
    out += [("lax", "apmath:" + e[2]["override_name"], i) for i, e in enumerate(APMATH_LAX)]
    for tname in TARGETS + ["lax"]:
        for fname in SYN:
            for i, t in enumerate(SYN_TYPES[tname]):
                out.append((tname, "syn:" + fname, i))
    return out


def is_synthetic(req):
    return req[1].startswith("syn:")


def _build_extra(fa, req):
    import numpy

    tname, fname, i = req
    target = getattr(fa.targets, tname)
    if fname.startswith("apmath:"):
        import functional_algorithms.apmath_algorithms  # noqa

        name, args, kwargs = APMATH_LAX[i]
        ctx = fa.Context(paths=[fa.apmath_algorithms], parameters=dict(dtypes=[numpy.float64, numpy.float32, numpy.float16]))
        graph = ctx.trace(getattr(fa.apmath, name), *args, **kwargs)
        doc = graph.props.get("__doc__")
        graph = graph.rewrite(target, fa.rewrite, fa.rewrite)  # exactly as tools/generate_apmath_lax.py
        if doc is not None:
            graph.props.update(__doc__=doc)  # (the tool re-attaches the docstring, which the lax printer emits)
        return graph, target
    func, nargs = SYN[fname[4:]]
    t = SYN_TYPES[tname][i]
    enable_alt, dct = (True, "FloatType") if tname == "xla_client" else (False, None)
    ctx = fa.Context(paths=[fa.algorithms], enable_alt=enable_alt, default_constant_type=dct)
    graph = ctx.trace(func, *[f"{n}:{t}" for n in "xyz"[:nargs]]).implement_missing(target).simplify()
    return graph, target


def build_graph(fa, req):
    """the traced, expanded and simplified graph of a request (may raise NotImplementedError)."""
    tname, fname, i = req
    if ":" in fname:
        return _build_extra(fa, req)
    target = getattr(fa.targets, tname)
    atypes = target.trace_arguments[fname][i]
    enable_alt, dct = (True, "FloatType") if tname == "xla_client" else (False, None)
    ctx = fa.Context(paths=[fa.algorithms], enable_alt=enable_alt, default_constant_type=dct)
    func = getattr(fa.algorithms, fname)
    graph = ctx.trace(func, *atypes).implement_missing(target).simplify()  # exactly as results/update.py
    graph.props.update(name=f"{fname}_{i}")
    return graph, target


def generate(fa, req, debug=0):
    """text of a request, or a stable description of the exception it raises."""
    with quiet():
        try:
            graph, target = build_graph(fa, req)
            return graph.tostring(target, debug=debug) if debug else graph.tostring(target)
        except NotImplementedError as e:
            return f"!NotImplementedError: {e}"
        except Exception as e:  # any other exception is reported as text too (and judged by C05/C06)
            return f"!{type(e).__name__}: {e}"


def sha(text):
    return hashlib.sha256(text.encode()).hexdigest()[:20]


def global_state(fa):
    """the process-global values the C09 anchors name (for counting distinct global states)."""
    import functional_algorithms.expr as ex
    import functional_algorithms.utils as ut

    tmp = ex.make_symbol.__defaults__[0][0]
    reg = tuple(sorted((d, tuple(sorted(r))) for d, r in fa.algorithms.definition._registry.items()))
    warn = len(ut._warn_once_cache)
    vf = len(ut.numpy_with_mpmath._vfunc_cache)
    return (tmp, hash(reg) & 0xFFFF, warn, vf)
