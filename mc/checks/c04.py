"""C04 — rewriting never changes what an expression denotes.

Bounded program enumeration (mc.proggen): every well-typed expression tree up to a size bound over
the supported kinds and a leaf alphabet (symbols, numeric and named constants, booleans), built in
a fresh Context, rewritten with `fa.rewrite`, and original vs rewritten DAG evaluated by the
independent interpreter (mc.interp) on the complete assignment grid V^k, plus an exact rational
interpreter on V_exact.  Scopes: A all kinds to size 2; B boolean/select algebra to size 3 (4);
C sign/finite inference: every comparison of arithmetic trees; D all-constant trees; E the shipped
algorithms before/after `fa.rewrite` (after each target's expansion pass).
Comparison only at assignments where the ORIGINAL raises no NaN / overflow / underflow flag at
any node: booleans identical, floats equal up to the sign of zero.  The rewriter must terminate
and must not raise.
A mismatch is attributed to its minimal failing sub-tree and classified by the root kind and the
empirical sign classes of its operands (so one unsound table row is one signature).
"""

from __future__ import annotations

import signal
import traceback
from fractions import Fraction as F

import numpy as np

from mc import interp, proggen
from mc.checks.c08 import build_recipe as build_recipe_c08
from mc.harness import add_violation, bump, new_part, quiet, setup_repo_import

PROPERTY = "C04"
LEVEL = "exploration"
MOD = "mc.checks.c04"

CFG = {"float32": ("float32", np.float32), "float": ("float", np.float64), "float64": ("float64", np.float64)}


def grid(t):
    fi = np.finfo(t)
    pos = [t(0), fi.smallest_subnormal, fi.smallest_normal, t(1) / t(3), t(0.5), t(1), t(2), fi.max, t(np.inf)]
    v = np.array([-p for p in reversed(pos)] + pos, dtype=t)
    return v


VEX = [F(-2), F(-1), F(-1, 2), F(0), F(1, 4), F(1, 2), F(1), F(2), F(4)]
VEX_QUICK = [F(-1), F(0), F(1, 2), F(1), F(2)]
EXACT_FULL = [False]


class Timeout(Exception):
    pass


def _alarm(*a):
    raise Timeout()


def has_symbol(e, memo):
    k = id(e)
    if k not in memo:
        if e.kind == "symbol":
            memo[k] = True
        elif e.kind == "constant":
            memo[k] = False
        elif e.kind == "select" and e.operands[0].kind == "constant" and isinstance(e.operands[0].operands[0], (bool, np.bool_)):
            # a select on a literal condition is the taken branch (the rewriter resolves it and then folds in the target type)
            memo[k] = has_symbol(e.operands[1] if e.operands[0].operands[0] else e.operands[2], memo)
        else:
            memo[k] = any(has_symbol(o, memo) for o in e.operands)
    return memo[k]


def exact_eval(fa, e, env, t, memo, fenv=None, smemo=None):
    """exact rational / boolean value of e, or None when not exactly evaluable.  Sub-trees without
    symbols denote their floating-point value in the target type (constant folding in the target
    dtype is the documented mechanism): fenv maps node id -> float value."""
    k = id(e)
    if k in memo:
        return memo[k]
    kind = e.kind
    r = None
    if fenv is not None and kind not in ("symbol", "constant") and not has_symbol(e, smemo):
        v = fenv.get(k)
        if v is not None:
            a = np.asarray(v)
            if a.dtype == bool:
                r = bool(a.reshape(-1)[0])
            elif a.dtype.kind == "f" and np.isfinite(a.reshape(-1)[0]):
                r = F(float(a.reshape(-1)[0]))
        memo[k] = r
        return r
    if kind == "symbol":
        r = env.get(e.operands[0])
    elif kind == "constant":
        v = e.operands[0]
        if isinstance(v, (bool, np.bool_)):
            r = bool(v)
        elif isinstance(v, (int, np.integer)):
            r = F(int(v))
        elif isinstance(v, (float, np.floating)):
            r = F(float(v)) if np.isfinite(v) else None
        elif isinstance(v, str):
            fi = np.finfo(t)
            r = {"largest": F(float(fi.max)), "smallest": F(float(fi.smallest_normal)), "eps": F(float(fi.eps)), "smallest_subnormal": F(float(fi.smallest_subnormal))}.get(v)
    else:
        ops = [exact_eval(fa, o, env, t, memo, fenv, smemo) for o in e.operands]
        if kind == "select":
            c, a, b = ops
            if c is not None:
                r = a if c else b
        elif any(o is None for o in ops):
            r = None
        elif kind == "negative":
            r = -ops[0]
        elif kind == "positive":
            r = ops[0]
        elif kind == "absolute":
            r = abs(ops[0])
        elif kind == "square":
            r = ops[0] * ops[0]
        elif kind == "sign":
            r = F((ops[0] > 0) - (ops[0] < 0))
        elif kind == "sqrt":
            import math

            q = ops[0]
            if q >= 0:
                n, d = q.numerator, q.denominator
                a, b = math.isqrt(n), math.isqrt(d)
                if a * a == n and b * b == d:
                    r = F(a, b)
        elif kind == "add":
            r = ops[0] + ops[1]
        elif kind == "subtract":
            r = ops[0] - ops[1]
        elif kind == "multiply":
            r = ops[0] * ops[1]
        elif kind == "divide":
            r = ops[0] / ops[1] if ops[1] != 0 else None
        elif kind == "minimum":
            r = min(ops)
        elif kind == "maximum":
            r = max(ops)
        elif kind in ("lt", "le", "gt", "ge", "eq", "ne"):
            a, b = ops
            r = {"lt": a < b, "le": a <= b, "gt": a > b, "ge": a >= b, "eq": a == b, "ne": a != b}[kind]
        elif kind == "logical_and":
            r = bool(ops[0]) and bool(ops[1])
        elif kind == "logical_or":
            r = bool(ops[0]) or bool(ops[1])
        elif kind == "logical_xor":
            r = bool(ops[0]) != bool(ops[1])
        elif kind == "logical_not":
            r = not ops[0]
    memo[k] = r
    return r


def sign_classes(vals, mask):
    v = np.asarray(vals)
    if v.dtype == bool:
        return "bool"
    v = np.broadcast_to(v, mask.shape)[mask]
    s = ""
    if (v < 0).any():
        s += "-"
    if (v == 0).any():
        s += "0"
    if (v > 0).any():
        s += "+"
    return s or "?"


def skeleton(r):
    k = r[0]
    if k in ("x", "y"):
        return k
    if k == "c":
        v = r[1]
        return "c0" if v == 0 else ("c1" if v == 1 else ("cneg" if v < 0 else "cpos"))
    if k == "n":
        return r[1]
    if k == "b":
        return str(r[1])
    return k + "(" + ",".join(skeleton(q) for q in r[1:]) + ")"


def subtrees(r):
    if r[0] in ("x", "y", "c", "n", "b"):
        return
    for q in r[1:]:
        yield q
        yield from subtrees(q)


def run_program(fa, recipe, cfg, X, Y):
    """returns dict(status=..., ...)."""
    tname, t = CFG[cfg]
    with quiet():
        ctx = fa.Context()
        syms = {"x": ctx.symbol("x", tname), "y": ctx.symbol("y", tname)}
        try:
            e = proggen.build(fa, ctx, recipe, syms)
        except Exception as ex:
            return dict(status="not-constructible", exc=type(ex).__name__)
        signal.setitimer(signal.ITIMER_PROF, 5.0)
        try:
            r = e.rewrite(fa.rewrite)
        except Timeout:
            return dict(status="no-termination")
        except Exception as ex:
            tb = traceback.extract_tb(ex.__traceback__)
            where = [f.name for f in tb if f.filename.endswith("rewrite.py") or f.filename.endswith("expr.py")]
            return dict(status="raises", exc=type(ex).__name__, where=(where[-1] if where else "?"), msg=str(ex)[:200])
        finally:
            signal.setitimer(signal.ITIMER_PROF, 0)
    changed = r is not e
    args = [syms["x"], syms["y"]]
    try:
        v0, ex0 = interp.Interp(fa, e, args).run(X, Y, record_flags=True)
    except interp.Unsupported as ex:
        return dict(status="not-evaluable", why=str(ex))
    except Exception as ex:
        return dict(status="not-evaluable", why=f"{type(ex).__name__}: {ex}")
    if not changed:
        return dict(status="unchanged")
    try:
        v1 = interp.Interp(fa, r, args).run(X, Y)
    except Exception as ex:
        return dict(status="rewritten-not-evaluable", why=f"{type(ex).__name__}: {ex}")
    fl = ex0["flags"]
    ok = ~(fl["nan"] | fl["overflow"] | fl["underflow"])
    a, b = np.asarray(v0), np.asarray(v1)
    a = np.broadcast_to(a, X.shape)
    b = np.broadcast_to(b, X.shape)
    with np.errstate(all="ignore"):
        if a.dtype == bool or b.dtype == bool:
            same = a.astype(bool) == b.astype(bool) if (a.dtype == bool and b.dtype == bool) else np.zeros(X.shape, bool)
        else:
            same = (a == b) | (np.isnan(a) & np.isnan(b))
    bad = ok & ~same
    res = dict(status="ok", changed=True, compared=int(ok.sum()))
    if bad.any():
        i = int(np.flatnonzero(bad)[0])
        res.update(status="mismatch", at=(float(X[i]), float(Y[i])), got=(str(a[i]), str(b[i])), nbad=int(bad.sum()), e=e, r=r, syms=syms, ok=ok, flags_ok=ok)
        return res
    # exact rational clause (constant-only sub-trees denote their value in the target float type)
    try:
        one = np.ones(1, dtype=t)
        _, exf = interp.Interp(fa, e, args).run(one, one, record_flags=True)
        if any(bool(np.asarray(v).any()) for v in exf["flags"].values()):
            return res  # a constant-only sub-tree produces NaN / overflow / underflow: outside the compared set
        _, exa = interp.Interp(fa, e, args).run(one, one, return_env=True)
        _, exb = interp.Interp(fa, r, args).run(one, one, return_env=True)
        fenv0, fenv1 = exa["env"], exb["env"]
    except Exception:
        fenv0 = fenv1 = None
    sm0, sm1 = {}, {}
    vex = VEX if EXACT_FULL[0] else VEX_QUICK
    for xv in vex:
        for yv in vex:
            env = {"x": xv, "y": yv}
            q0 = exact_eval(fa, e, env, t, {}, fenv0, sm0)
            if q0 is None:
                continue
            q1 = exact_eval(fa, r, env, t, {}, fenv1, sm1)
            if q1 is None:
                continue
            if q0 != q1:
                res.update(status="exact-mismatch", at=(str(xv), str(yv)), got=(str(q0), str(q1)))
                return res
    return res


def classify(fa, recipe, cfg, X, Y, res):
    """signature of a mismatch: minimal failing sub-tree, root kind, operand sign classes, witness."""
    best = recipe
    for sub in sorted(set(subtrees(recipe)), key=lambda r: len(str(r))):
        if len(str(sub)) >= len(str(best)):
            continue
        r2 = run_program(fa, sub, cfg, X, Y)
        if r2["status"] in ("mismatch", "exact-mismatch"):
            best, res = sub, r2
            break
    k = best[0]
    ops = []
    if res["status"] == "mismatch" and k not in ("x", "y", "c", "n", "b"):
        # root cause "an operand's zero changed sign and this kind is sensitive to it"?
        try:
            e, r, syms = res["e"], res["r"], res["syms"]
            args = [syms["x"], syms["y"]]
            bad = np.flatnonzero(~((np.broadcast_to(np.asarray(interp.Interp(fa, e, args).run(X, Y)), X.shape) == np.broadcast_to(np.asarray(interp.Interp(fa, r, args).run(X, Y)), X.shape))) & res["ok"])
            i = int(bad[0])
            if r.kind == e.kind and len(r.operands) == len(e.operands):
                zsign = False
                same = True
                for o0, o1 in zip(e.operands, r.operands):
                    a0 = np.broadcast_to(np.asarray(interp.Interp(fa, o0, args).run(X, Y)), X.shape)[i]
                    a1 = np.broadcast_to(np.asarray(interp.Interp(fa, o1, args).run(X, Y)), X.shape)[i]
                    if not (a0 == a1):
                        same = False
                    elif a0 == 0 and np.signbit(a0) != np.signbit(a1):
                        zsign = True
                if same and zsign:
                    opk = sorted(set(q[0] for q in best[1:] if q[0] not in ("x", "y", "c", "n", "b")))
                    return best, f"mismatch:sign-of-zero-of-an-operand-changed:{k}:operand-rewritten-from-{'|'.join(opk)}", res
        except Exception:
            pass
    if res["status"] == "mismatch":
        e, syms, ok = res["e"], res["syms"], res["ok"]
        args = [syms["x"], syms["y"]]
        for o in e.operands:
            try:
                v = interp.Interp(fa, o, args).run(X, Y)
                ops.append(sign_classes(v, ok))
            except Exception:
                ops.append("?")
    xw, yw = res["at"]

    def w(v):
        try:
            v = float(v)
        except Exception:
            return "q"
        return "0" if v == 0 else ("inf" if np.isinf(v) else ("sub" if abs(v) < 1e-300 or (abs(v) < 1.2e-38 and cfg == "float32") else "fin"))

    return best, f"{res['status']}:{k}({','.join(q[0] if q[0] not in ('c', 'n', 'b') else 'const' for q in best[1:])}):operand-signs[{'|'.join(ops)}]:at[{w(xw)},{w(yw)}]", res


def minimal_raising(fa, recipe, cfg, X, Y, res):
    best = recipe
    for sub in sorted(set(subtrees(recipe)), key=lambda r: len(str(r))):
        r2 = run_program(fa, sub, cfg, X, Y)
        if r2["status"] == "raises" and r2["exc"] == res["exc"]:
            return sub
    return best


def raise_sig(best, cfg, res):
    def cls(q):
        return q[0] if q[0] not in ("c", "n", "b") else ("named" if q[0] == "n" else ("bool" if q[0] == "b" else "number"))

    import re

    if res["where"] == "is_complex":
        m = re.search(r"not implemented for (\w+)", res["msg"])
        return f"rewrite-raises:{res['exc']}:in-is_complex:kind={m.group(1) if m else '?'}"
    return f"rewrite-raises:{res['exc']}:in-{res['where']}:{cfg}:{best[0]}({','.join(sorted(set(cls(q) for q in best[1:])))})"


def programs(scope, size, level):
    L = proggen.leaves(level)
    if scope == "A":
        out = proggen.enum(size, "F", L) + proggen.enum(size, "B", L)
    elif scope == "X":  # further kinds (casts, rounding, atan2/copysign/hypot) under every comparison and operation
        Lx = [("x",), ("y",), ("c", 0), ("c", 1), ("c", -1), ("c", 0.5)]
        out = proggen.enum(size, "F", Lx, unary=proggen.UNARY_F + proggen.UNARY_F_EXTRA, binary=["add", "multiply"] + proggen.BINARY_F_EXTRA) + \
            proggen.enum(size, "B", Lx, unary=proggen.UNARY_F + proggen.UNARY_F_EXTRA, binary=["add", "multiply"] + proggen.BINARY_F_EXTRA)
    elif scope == "B":
        Lb = [("x",), ("y",), ("c", 0), ("c", 1)]
        out = proggen.enum(size, "B", Lb, unary=["negative", "absolute"], binary=["add", "multiply"], compare=["lt", "le", "eq", "ne", "ge"]) + \
            proggen.enum(size, "F", Lb, unary=["negative", "absolute"], binary=["add"], compare=["lt", "eq", "ge"], logic=["logical_and", "logical_or"])
    elif scope == "C":
        Lc = proggen.leaves(level)
        by = {}
        for sz in range(0, size):
            by[sz] = proggen.enum(sz, "F", Lc, unary=["negative", "absolute", "square", "sqrt"], binary=["add", "subtract", "multiply", "divide"], with_select=False)
        out = []
        for k in proggen.COMPARE:
            for i in range(size):
                for j in range(size - i):
                    if i + j != size - 1:
                        continue
                    for a in by[i]:
                        for b in by[j]:
                            out.append((k, a, b))
    elif scope == "S":  # sign-inference pairs: every comparison between sign-definite builders
        x, y = ("x",), ("y",)
        nonneg = [("absolute", x), ("square", x), ("absolute", y), ("sqrt", ("absolute", x)), ("multiply", x, x), ("add", ("absolute", x), ("c", 0))]
        nonpos = [("negative", q) for q in nonneg]
        pos = [("add", q, ("c", 1)) for q in nonneg[:3]] + [("c", 1), ("n", "largest"), ("n", "eps"), ("n", "smallest"), ("n", "posinf")]
        neg = [("negative", q) for q in pos[:3]] + [("c", -1), ("n", "neginf")]
        zero = [("c", 0), ("c", -0.0)]
        fin = [x, y, ("add", x, y)]
        groups = nonneg + nonpos + pos + neg + zero + fin
        out = [(k, a, b) for k in proggen.COMPARE for a in groups for b in groups]
    elif scope == "T":  # sign algebra: every operation over two sign-definite operands, compared with 0 and with sign-definite values
        x, y = ("x",), ("y",)
        cls = {
            "nonneg": [("absolute", x), ("square", y)],
            "nonpos": [("negative", ("absolute", y)), ("negative", ("square", x))],
            "pos": [("add", ("absolute", x), ("c", 1)), ("c", 1), ("c", 2), ("n", "largest")],
            "neg": [("negative", ("add", ("square", y), ("c", 1))), ("c", -1), ("c", -0.5)],
            "zero": [("c", 0), ("c", -0.0)],
            "any": [x, y],
        }
        reps = [q for v in cls.values() for q in v]
        ops = ["add", "subtract", "multiply", "minimum", "maximum"] + (["divide"] if size >= 2 else [])
        comps = [(k, a, b) for k in ops for a in reps for b in reps]
        comps += [("sqrt", ("add", a, b)) for a in cls["nonneg"] + cls["pos"] for b in cls["nonneg"] + cls["pos"]]
        against = [("c", 0), ("absolute", x), ("negative", ("absolute", x)), ("c", 1), ("c", -1)]
        out = []
        for k in proggen.COMPARE:
            for c in comps:
                for b in against:
                    out.append((k, c, b))
                out.append((k, ("c", 0), c))
    elif scope == "L":  # logic laws: every and/or/xor/not tree of operator depth <= 2 over shared atoms; selects on them; nested selects
        x, y = ("x",), ("y",)
        atoms = [("lt", x, y), ("le", y, ("c", 0)), ("eq", x, ("c", 0)), ("b", True), ("b", False)]
        T0 = list(atoms)
        T1 = [("logical_not", a) for a in T0] + [(k, a, b) for k in proggen.LOGIC2 for a in T0 for b in T0]
        T01 = T0 + T1
        T2 = [("logical_not", a) for a in T1] + [(k, a, b) for k in proggen.LOGIC2 for a in T01 for b in T01 if (a in T1 or b in T1)]
        out = T1 + T2
        if size >= 2:
            out = out + [("select", c, x, y) for c in T1 + T2]
        else:
            out = out + [("select", c, x, y) for c in T1]
        for p_ in atoms[:3]:
            for c in T01:
                inner = ("select", c, x, y)
                out += [("select", p_, inner, y), ("select", p_, x, inner), ("select", c, ("select", p_, x, y), y), ("select", c, x, ("select", p_, y, x))]
    elif scope == "F":  # folding of constants that are not representable in the (narrower) target type
        x = ("x",)
        K = [("c", 0.1), ("c", 0.2), ("c", 0.3), ("c", 0.7), ("c", 1.0 / 3.0), ("c", 1e-3), ("c", 16777217.0), ("n", "pi")]
        ops = ["add", "subtract", "multiply", "divide"]
        folded = [(k, a, b) for k in ops for a in K for b in K]
        out = [(c, f, d) for c in proggen.COMPARE for f in folded for d in (K if size >= 2 else K[:4])]
        out += [(k2, x, f) for k2 in ("add", "multiply", "lt", "subtract") for f in folded] + [("select", ("eq", f, d), x, ("negative", x)) for f in folded[:64] for d in K[:4]]
        out += [("sqrt", f) for f in folded] + [("multiply", x, ("sqrt", a)) for a in K] + [("add", x, ("negative", a)) for a in K] + [("lt", ("absolute", ("subtract", a, b)), d) for a in K for b in K for d in K[:3]]
    elif scope == "D":
        Ld = [q for q in proggen.leaves(2) if q[0] in ("c", "n")]
        out = []
        for s in range(1, size + 1):
            out += proggen.enum(s, "F", Ld) + proggen.enum(s, "B", Ld)
    return out


def w_scope(task):
    fa = setup_repo_import()
    signal.signal(signal.SIGPROF, _alarm)
    part = new_part()
    cfg = task["cfg"]
    tname, t = CFG[cfg]
    V = grid(t)
    X, Y = np.meshgrid(V, V, indexing="ij")
    X, Y = X.ravel(), Y.ravel()
    EXACT_FULL[0] = bool(task.get("exact_full"))
    progs = programs(task["scope"], task["size"], task["level"])
    sl = progs[task["lo"]::task["stride"]]
    for recipe in sl:
        part["evaluations"] += 1
        res = run_program(fa, recipe, cfg, X, Y)
        st = res["status"]
        bump(part, "status_" + st)
        case = {"recipe": repr(recipe), "cfg": cfg}
        if st == "raises":
            best = minimal_raising(fa, recipe, cfg, X, Y, res)
            add_violation(part, raise_sig(best, cfg, res), f"rewriting {proggen_str(best)} [{cfg}] raised {res['exc']}: {res['msg']} (minimal sub-tree of {proggen_str(recipe)})", {"recipe": repr(best), "cfg": cfg})
        elif st == "no-termination":
            add_violation(part, f"rewrite-does-not-terminate:{cfg}", f"rewriting {proggen_str(recipe)} [{cfg}] did not reach a fix-point within 5 s of CPU time", case)
        elif st in ("mismatch", "exact-mismatch"):
            best, sig, r2 = classify(fa, recipe, cfg, X, Y, res)
            add_violation(part, f"{cfg}:{sig}", f"{proggen_str(best)} [{cfg}] at x={r2['at'][0]} y={r2['at'][1]}: original evaluates to {r2['got'][0]}, rewritten to {r2['got'][1]} (minimal sub-tree of {proggen_str(recipe)})", {"recipe": repr(best), "cfg": cfg})
        elif st == "rewritten-not-evaluable":
            add_violation(part, f"rewritten-not-evaluable:{cfg}", f"{proggen_str(recipe)}: {res['why']}", case)
        if res.get("changed"):
            part["nontrivial"] += 1
    if sl:
        part["samples"].append({"scope": task["scope"], "size": task["size"], "cfg": cfg, "program": proggen_str(sl[len(sl) // 2])})
    return part


def proggen_str(r):
    k = r[0]
    if k in ("x", "y"):
        return k
    if k in ("c", "n", "b"):
        return repr(r[1])
    if k == "cy":
        return repr(r[1]) + "~y"
    return k + "(" + ", ".join(proggen_str(q) for q in r[1:]) + ")"


# ------------------------------------------------------------------ scope E: shipped algorithms


# ------------------------------------------------------------------ complex-typed symbols (scope Z)


class CInterp(interp.Interp):
    """mc.interp plus the textbook semantics of the kinds that take complex operands (unexpanded graphs): component-wise
    add/subtract/negative/conjugate, the four-product multiplication, modulus by hypot, real scaling; used on a grid of
    moderate finite values only (no overflow, underflow, NaN), so that the comparison set needs no event flags."""

    def _eval(self, e, env, flags):
        k = e.kind
        if k in ("symbol", "constant", "apply", "complex", "real", "imag", "conjugate", "select", "list", "item"):
            return super()._eval(e, env, flags)
        ops = [env[id(o)] for o in e.operands]
        if not any(isinstance(o, interp.Cx) for o in ops):
            return super()._eval(e, env, flags)
        C = interp.Cx

        def cx(o):
            return o if isinstance(o, C) else C(o, np.zeros_like(o))

        if k == "absolute":
            return np.hypot(ops[0].re, ops[0].im)
        if k == "negative":
            return C(-ops[0].re, -ops[0].im)
        if k == "positive":
            return ops[0]
        if k in ("add", "subtract"):
            a, b = cx(ops[0]), cx(ops[1])
            f = np.add if k == "add" else np.subtract
            return C(f(a.re, b.re), f(a.im, b.im))
        if k == "multiply":
            a, b = ops
            if not isinstance(a, C):
                return C(a * b.re, a * b.im)
            if not isinstance(b, C):
                return C(a.re * b, a.im * b)
            return C(a.re * b.re - a.im * b.im, a.re * b.im + a.im * b.re)
        if k == "square":
            a = ops[0]
            return C(a.re * a.re - a.im * a.im, a.re * a.im + a.im * a.re)
        if k == "divide" and not isinstance(ops[1], C):
            return C(ops[0].re / ops[1], ops[0].im / ops[1])
        if k in ("eq", "ne"):
            a, b = cx(ops[0]), cx(ops[1])
            r = (a.re == b.re) & (a.im == b.im)
            return r if k == "eq" else ~r
        raise interp.Unsupported(f"{k} with complex operand")


def complex_programs(level):
    """programs over a complex symbol z and a real symbol x (leaf names: z -> ("y",), x -> ("x",))"""
    x, z = ("x",), ("y",)
    one, zero = ("c", 1), ("c", 0)
    zc1, zc0 = ("cy", 1), ("cy", 0)
    reals = [("absolute", z), ("real", z), ("imag", z), ("absolute", ("multiply", z, z)), ("absolute", ("conjugate", z)), ("sqrt", ("absolute", z)), ("add", ("absolute", z), x),
             ("multiply", ("absolute", z), ("absolute", z)), ("square", ("absolute", z)), ("negative", ("absolute", z)), ("absolute", ("negative", z)), ("add", ("absolute", z), one),
             ("absolute", ("add", z, zc1)), ("multiply", ("real", z), ("real", z)), ("add", ("square", ("real", z)), ("square", ("imag", z))), ("absolute", ("real", z)), ("negative", ("square", ("imag", z)))]
    others = [x, ("absolute", x), zero, one, ("c", -1), ("c", 0.5), ("negative", ("absolute", x))]
    out = []
    for k in proggen.COMPARE:
        for a in reals:
            for b in others + reals[:6]:
                out.append((k, a, b))
                if level >= 1 or b in others[:3]:
                    out.append((k, b, a))
    cplx = [z, ("negative", z), ("conjugate", z), ("multiply", z, zc1), ("add", z, zc0), ("add", zc0, z), ("subtract", z, zc0), ("negative", ("negative", z)), ("conjugate", ("conjugate", z)),
            ("multiply", zc1, z), ("complex", ("real", z), ("imag", z)), ("multiply", z, z), ("add", z, z), ("divide", z, one), ("complex", x, ("absolute", z)), ("multiply", ("absolute", z), z)]
    conds = [("lt", ("absolute", z), one), ("ge", ("absolute", z), zero), ("lt", ("real", z), x), ("eq", ("imag", z), zero), ("le", ("absolute", z), ("absolute", x)), ("gt", ("absolute", ("multiply", z, z)), ("absolute", z))]
    for c in conds:
        for a in cplx:
            for b in cplx[:4]:
                out.append(("select", c, a, b))
    for a in cplx:
        out += [("real", a), ("imag", a), ("absolute", a), ("lt", ("absolute", a), one), ("eq", ("real", a), ("real", z))]
    seen, res = set(), []
    for r in out:
        if r not in seen:
            seen.add(r)
            res.append(r)
    return res


CGRID = [-2.0, -1.0, -0.5, -0.0, 0.0, 1.0 / 3.0, 0.5, 1.0, 2.0]


def w_complex(task):
    """scope Z: the rewriter on graphs with a complex-typed symbol: terminates, does not raise, same value on the grid."""
    fa = setup_repo_import()
    signal.signal(signal.SIGPROF, _alarm)
    part = new_part()
    ctname, ftname, ft = task["ctype"], task["ftype"], {"float32": np.float32, "float": np.float64}[task["ftype"]]
    g = np.array(CGRID, dtype=ft)
    RE, IM, X = (a.ravel() for a in np.meshgrid(g, g, g, indexing="ij"))
    Z = (RE + 1j * IM).astype(np.complex64 if ft is np.float32 else np.complex128)
    Z.real, Z.imag = RE, IM  # keeps the signs of zeros
    progs = complex_programs(task["level"])[task["lo"]::task["stride"]]
    for recipe in progs:
        part["evaluations"] += 1
        case = {"recipe": repr(recipe), "cfg": ctname, "scope": "Z", "ftype": ftname}
        with quiet():
            ctx = fa.Context()
            syms = {"x": ctx.symbol("x", ftname), "y": ctx.symbol("z", ctname)}
            try:
                e = build_recipe_c08(fa, ctx, recipe, syms)
            except Exception as ex:
                bump(part, "status_not-constructible")
                continue
            signal.setitimer(signal.ITIMER_PROF, 5.0)
            try:
                r = e.rewrite(fa.rewrite)
            except Timeout:
                add_violation(part, f"rewrite-does-not-terminate:{ctname}", f"rewriting {proggen_str(recipe)} [z:{ctname}, x:{ftname}] did not reach a fix-point within 5 s of CPU time", case)
                continue
            except Exception as ex:
                tb = traceback.extract_tb(ex.__traceback__)
                where = [f.name for f in tb if f.filename.endswith("rewrite.py") or f.filename.endswith("expr.py")]
                add_violation(part, f"rewrite-raises:{type(ex).__name__}:{where[-1] if where else '?'}:complex-symbol", f"rewriting {proggen_str(recipe)} [z:{ctname}, x:{ftname}] raised {type(ex).__name__}: {str(ex)[:200]}", case)
                continue
            finally:
                signal.setitimer(signal.ITIMER_PROF, 0)
        if r is e:
            bump(part, "status_unchanged")
            continue
        part["nontrivial"] += 1
        args = [syms["x"], syms["y"]]
        try:
            with np.errstate(all="ignore"):
                v0 = CInterp(fa, e, args).run(X, Z)
        except Exception as ex:
            bump(part, "status_not-evaluable")
            continue
        try:
            with np.errstate(all="ignore"):
                v1 = CInterp(fa, r, args).run(X, Z)
        except Exception as ex:
            add_violation(part, f"rewritten-not-evaluable:{ctname}", f"{proggen_str(recipe)}: {type(ex).__name__}: {ex}", case)
            continue
        a, b = np.broadcast_to(np.asarray(v0), X.shape), np.broadcast_to(np.asarray(v1), X.shape)
        with np.errstate(all="ignore"):
            if (a.dtype == bool) != (b.dtype == bool):
                same = np.zeros(X.shape, bool)
            else:
                same = (a == b) | ((a != a) & (b != b))
            finite = np.isfinite(a) if a.dtype != bool else np.ones(X.shape, bool)
        bad = finite & ~same
        if bad.any():
            i = int(np.flatnonzero(bad)[0])
            add_violation(part, f"{ctname}:mismatch:{recipe[0]}({','.join(q[0] for q in recipe[1:] if isinstance(q, tuple))}):complex-symbol", f"{proggen_str(recipe)} at z={Z[i]!r} x={X[i]!r}: original evaluates to {a[i]!r}, rewritten to {b[i]!r}", case)
    if progs:
        part["samples"].append({"scope": "Z", "cfg": ctname, "program": proggen_str(progs[len(progs) // 2])})
    return part



def w_shipped(task):
    fa = setup_repo_import()
    part = new_part()
    from mc import gen, lattice

    req = tuple(task["req"])
    tname, fname, i = req
    target = getattr(fa.targets, tname)
    atypes = target.trace_arguments[fname][i]
    with quiet():
        try:
            enable_alt, dct = (False, None)
            ctx = fa.Context(paths=[fa.algorithms])
            g0 = ctx.trace(getattr(fa.algorithms, fname), *atypes).rewrite(target)
        except NotImplementedError:
            bump(part, "shipped_not_implemented")
            return part
        except Exception as ex:
            add_violation(part, f"shipped:{tname}:{fname}:expansion-raises:{type(ex).__name__}", str(ex)[:300], {"req": list(req)})
            return part
        try:
            g1 = g0.rewrite(fa.rewrite)
        except Exception as ex:
            add_violation(part, f"shipped:{tname}:{fname}:rewrite-raises:{type(ex).__name__}", str(ex)[:300], {"req": list(req)})
            return part
    part["evaluations"] += 1
    # evaluate both on a lattice of the argument type(s)
    names = [a.split(":")[1].strip() if ":" in a else "float" for a in atypes]
    dts = [getattr(np, {"float": "float64", "complex": "complex128"}.get(n, n)) for n in names]
    ft = {np.complex64: np.float32, np.complex128: np.float64}.get(dts[0], dts[0])
    S = np.concatenate([lattice.binade_lattice(ft, mantissas=2, estride=8 if ft is np.float32 else 48, ephase=task["seed"] % 8, seed=task["seed"], include_inf=True), lattice.specials(ft)])
    S = S[~np.isnan(S)]
    A, B = np.meshgrid(S, S, indexing="ij")
    A, B = A.ravel(), B.ravel()
    if np.dtype(dts[0]).kind == "c":
        z = np.empty(A.shape, dtype=dts[0])
        z.real = A
        z.imag = B
        inputs = [z]
    elif len(dts) == 2:
        inputs = [A, B]
    else:
        inputs = [S]
    try:
        v0, ex0 = interp.Interp(fa, g0).run(*inputs, record_flags=True)
        v1 = interp.Interp(fa, g1).run(*inputs)
    except interp.Unsupported as ex:
        bump(part, "shipped_not_evaluable")
        return part
    fl = ex0["flags"]
    ok = ~(fl["nan"] | fl["overflow"] | fl["underflow"])
    a, b = np.asarray(v0), np.asarray(v1)
    with np.errstate(all="ignore"):
        if a.dtype.kind == "c":
            same = ((a.real == b.real) | (np.isnan(a.real) & np.isnan(b.real))) & ((a.imag == b.imag) | (np.isnan(a.imag) & np.isnan(b.imag)))
        else:
            same = (a == b) | (np.isnan(a) & np.isnan(b))
    bad = ok & ~same
    part["nontrivial"] += 1 if g1 is not g0 else 0
    part["counters"]["shipped_points_compared"] = int(ok.sum())
    if bad.any():
        j = int(np.flatnonzero(bad)[0])
        add_violation(part, f"shipped:{tname}:{fname}:value-changed-by-rewrite", f"{req}: at input index {j} ({[str(np.asarray(x).ravel()[j]) for x in inputs]}) before rewrite {a.ravel()[j]!r}, after {b.ravel()[j]!r}", {"req": list(req), "seed": task["seed"]})
    part["samples"].append({"shipped": list(req), "points": int(ok.sum())})
    return part


def run(run):
    thorough = run.tier == "thorough"
    fa = setup_repo_import()
    from mc import gen

    plan = []
    for cfg in ("float32", "float"):
        plan += [("S", 0, 0, cfg), ("T", 2 if thorough else 1, 0, cfg), ("L", 2 if thorough else 1, 0, cfg), ("F", 2 if thorough else 1, 0, cfg), ("A", 1, 2, cfg), ("A", 2, 1 if thorough else 0, cfg), ("X", 2, 0, cfg), ("B", 3, 0, cfg), ("D", 1, 2, cfg), ("C", 2, 2, cfg)]
        if thorough:
            plan += [("C", 3, 1, cfg), ("D", 2, 2, cfg)]
    tasks = []
    for scope, size, level, cfg in plan:
        n = len(programs(scope, size, level))
        run.counters[f"programs_{scope}{size}_L{level}_{cfg}"] = n
        stride = max(1, min(256, n // 400 + 1))
        for lo in range(stride):
            tasks.append(dict(scope=scope, size=size, level=level, cfg=cfg, lo=lo, stride=stride, exact_full=thorough))
    run.map(MOD, "w_scope", tasks)
    nz = len(complex_programs(1 if thorough else 0))
    run.counters["programs_Z_complex_symbol"] = nz
    run.map(MOD, "w_complex", [dict(ctype=ct, ftype=ftn, level=1 if thorough else 0, lo=lo, stride=8) for ct, ftn in (("complex64", "float32"), ("complex", "float")) for lo in range(8)])
    reqs = [r for r in gen.requests(fa) if r[0] in ("numpy", "python", "cpp", "stablehlo", "xla_client")]
    if not thorough:
        reqs = [r for r in reqs if r[0] in ("numpy", "stablehlo")]
    run.map(MOD, "w_shipped", [dict(req=list(r), seed=run.seed) for r in reqs])
    run.coverage_extra["programs"] = int(run.evaluations)
    run.rule = (
        "every expression tree of the stated sizes over the kinds negative/positive/absolute/sign/sqrt/square/add/subtract/multiply/divide/minimum/maximum/6 comparisons/"
        "logical and,or,xor,not/select with leaves x, y, numeric (0, 1, -1, 2, 0.5, -0.0, ...) and named constants, booleans, in a float32-typed and a generic-float "
        "Context (scopes A, B, C, D as listed in counters; S/T: every comparison between sign-definite builders and every operation over two sign-definite operands compared with 0/sign-definite values; F: comparisons and operations over foldable pairs of constants that are inexact in float32; L: every and/or/xor/not tree of depth <= 2 over shared atoms, selects on them and nested selects), each rewritten and compared with the original on the full 18x18 assignment grid (flag-free points of "
        "the original) and exactly on a rational grid (9x9 thorough, 5x5 quick); shipped algorithms before/after fa.rewrite on lattices; non-trivial = programs the rewriter changed"
    )
    run.exhaustive = True
    run.coverage_extra["exhaustive_scope"] = "all programs of the listed scopes/sizes; not all programs"
    run.assumptions = ["mc.interp semantics = NumPy semantics of each kind (maximum/minimum as Python max/min)", "exclusion flags are conservative (they can only shrink the compared set)"]


def replay(case):
    fa = setup_repo_import()
    signal.signal(signal.SIGPROF, _alarm)
    part = new_part()
    if case.get("scope") == "Z":
        progs = complex_programs(1)
        rc = eval(case["recipe"])
        part = w_complex(dict(ctype=case["cfg"], ftype=case["ftype"], level=1, lo=progs.index(rc), stride=len(progs)))
        return [(v["sig"], v["msg"][:600]) for v in part["violations"]]
    if "recipe" in case:
        recipe = eval(case["recipe"])
        cfg = case["cfg"]
        tname, t = CFG[cfg]
        V = grid(t)
        X, Y = np.meshgrid(V, V, indexing="ij")
        X, Y = X.ravel(), Y.ravel()
        res = run_program(fa, recipe, cfg, X, Y)
        st = res["status"]
        if st == "raises":
            best = minimal_raising(fa, recipe, cfg, X, Y, res)
            add_violation(part, raise_sig(best, cfg, res), res["msg"], case)
        elif st == "no-termination":
            add_violation(part, f"rewrite-does-not-terminate:{cfg}", "no fix-point", case)
        elif st in ("mismatch", "exact-mismatch"):
            best, sig, r2 = classify(fa, recipe, cfg, X, Y, res)
            add_violation(part, f"{cfg}:{sig}", f"{proggen_str(best)} at {r2['at']}: {r2['got']}", case)
    else:
        part = w_shipped(dict(req=case["req"], seed=case.get("seed", 0)))
    return [(v["sig"], v["msg"]) for v in part["violations"]]
