"""E7 — independent parsers of emitted text.

  * StableHLO TableGen patterns (.td): S-expression reader understanding `Op:$ref`, `$name`,
    `Op<"attr">`, bare attribute atoms.
  * C-like expressions and function bodies (XLA-client .cc, C++ .cpp): tokenizer + Pratt parser for
    calls, member access, template names, infix operators, unary minus/not, ternary, literals.
Nothing here imports functional_algorithms.
"""

from __future__ import annotations

import re

# ------------------------------------------------------------------ StableHLO S-expressions


class SNode:
    __slots__ = ("op", "attr", "ref", "args", "pos")

    def __init__(self, op, attr, ref, args, pos):
        self.op, self.attr, self.ref, self.args, self.pos = op, attr, ref, args, pos

    def __repr__(self):
        return f"({self.op}{'<' + self.attr + '>' if self.attr is not None else ''}{':$' + self.ref if self.ref else ''} {self.args})"


class SRef:
    __slots__ = ("name", "pos")

    def __init__(self, name, pos):
        self.name, self.pos = name, pos

    def __repr__(self):
        return "$" + self.name


_TD_TOKEN = re.compile(r'\s*(?:(\()|(\))|(,)|(\$[A-Za-z_][A-Za-z0-9_]*)|([A-Za-z_][A-Za-z0-9_]*)(?:<"([^"]*)">)?(?::\$([A-Za-z_][A-Za-z0-9_]*))?)')


def parse_td_pattern(text):
    """returns (pattern name, [(argtype, argname)], body SNode/SRef)."""
    m = re.search(r"def\s*([A-Za-z_0-9]*)\s*:\s*Pat<\(([A-Za-z_0-9]+)\s*([^)]*)\),", text)
    if not m:
        raise ValueError("no Pat<...> header")
    args = []
    for a in m.group(3).split(","):
        a = a.strip()
        if a:
            t, n = a.split(":$")
            args.append((t.strip(), n.strip()))
    body_text = text[m.end():]
    end = body_text.rfind(">;")
    if end < 0:
        raise ValueError("pattern not terminated by >;")
    body_text = body_text[:end]
    pos = [0]

    def tok():
        mm = _TD_TOKEN.match(body_text, pos[0])
        if not mm or mm.end() == pos[0]:
            rest = body_text[pos[0]:].strip()
            if not rest:
                return None
            raise ValueError(f"cannot tokenize at {rest[:40]!r}")
        pos[0] = mm.end()
        return mm

    def parse():
        mm = tok()
        if mm is None:
            raise ValueError("unexpected end")
        if mm.group(4):
            return SRef(mm.group(4)[1:], mm.start())
        if mm.group(5) and not mm.group(1):
            return SNode(mm.group(5), mm.group(6), mm.group(7), [], mm.start())  # bare atom
        if mm.group(1):
            head = tok()
            if head is None or not head.group(5):
                raise ValueError("operator expected after (")
            node = SNode(head.group(5), head.group(6), head.group(7), [], head.start())
            while True:
                save = pos[0]
                nxt = tok()
                if nxt is None:
                    raise ValueError("missing )")
                if nxt.group(2):
                    return node
                if nxt.group(3):
                    continue
                pos[0] = save
                node.args.append(parse())
        raise ValueError(f"unexpected token {mm.group(0)!r}")

    body = parse()
    if body_text[pos[0]:].strip():
        raise ValueError(f"trailing text {body_text[pos[0]:].strip()[:40]!r}")
    return m.group(2), args, body


# ------------------------------------------------------------------ C-like expressions

_C_TOKEN = re.compile(r"""\s*(?:
    (?P<num>(?:\d+\.\d*(?:[eE][+-]?\d+)?|\.\d+(?:[eE][+-]?\d+)?|\d+[eE][+-]?\d+|\d+)[fFlLuU]*)|
    (?P<id>[A-Za-z_][A-Za-z0-9_]*(?:::[A-Za-z_][A-Za-z0-9_]*)*)|
    (?P<op>\|\||&&|==|!=|<=|>=|<<|>>|[-+*/%<>!?:(),.;={}&|^~])
)""", re.X)


class CNode:
    __slots__ = ("kind", "name", "args")

    def __init__(self, kind, name, args=()):
        self.kind, self.name, self.args = kind, name, list(args)

    def __repr__(self):
        return f"{self.kind}:{self.name}{self.args if self.args else ''}"


def c_tokens(text):
    pos, out = 0, []
    while True:
        m = _C_TOKEN.match(text, pos)
        if not m or m.end() == pos:
            if text[pos:].strip():
                raise ValueError(f"cannot tokenize C text at {text[pos:pos + 40]!r}")
            return out
        pos = m.end()
        out.append((m.lastgroup, m.group(m.lastgroup)))


BIN_PREC = {"||": 1, "&&": 2, "|": 3, "^": 4, "&": 5, "==": 6, "!=": 6, "<": 7, "<=": 7, ">": 7, ">=": 7, "<<": 8, ">>": 8, "+": 9, "-": 9, "*": 10, "/": 10, "%": 10}


class CParser:
    def __init__(self, toks):
        self.t, self.i = toks, 0

    def peek(self):
        return self.t[self.i] if self.i < len(self.t) else (None, None)

    def next(self):
        tk = self.peek()
        self.i += 1
        return tk

    def expect(self, s):
        k, v = self.next()
        if v != s:
            raise ValueError(f"expected {s!r}, got {v!r}")

    def template_name(self, name):
        """after an identifier: optional <...> template args (only when followed by :: or ( ), glued into the name"""
        k, v = self.peek()
        if v == "<":
            # look ahead for a balanced <...> followed by '::' or '(' -> a template; otherwise a comparison
            depth, j = 0, self.i
            while j < len(self.t):
                vv = self.t[j][1]
                if vv == "<":
                    depth += 1
                elif vv == ">":
                    depth -= 1
                    if depth == 0:
                        break
                elif vv in (";", "?", "&&", "||", "=="):
                    return name
                j += 1
            else:
                return name
            nxt = self.t[j + 1][1] if j + 1 < len(self.t) else None
            inner = self.t[self.i + 1:j]
            if all(tt[0] == "id" or tt[1] in ("::", ",") for tt in inner) and nxt in ("(", ":"):
                name = name + "<" + "".join(tt[1] for tt in inner) + ">"
                self.i = j + 1
                # possible ::member after the template
                k2, v2 = self.peek()
                if k2 == "id" and False:
                    pass
        return name

    def primary(self):
        k, v = self.next()
        if k == "num":
            return CNode("num", v)
        if k == "id":
            name = self.template_name(v)
            # `std::numeric_limits<T>::max` : template followed by ::member
            while self.peek()[1] == ":" and self.i + 1 < len(self.t) and self.t[self.i + 1][1] == ":":
                self.i += 2
                k3, v3 = self.next()
                name += "::" + v3
            node = CNode("id", name)
            return self.postfix(node)
        if v == "(":
            e = self.expr(0)
            self.expect(")")
            return self.postfix(CNode("paren", "()", [e]))
        if v in ("-", "!", "+", "~"):
            return CNode("unary", v, [self.unary()])
        raise ValueError(f"unexpected token {v!r}")

    def unary(self):
        return self.primary()

    def postfix(self, node):
        while True:
            k, v = self.peek()
            if v == "(":
                self.next()
                args = []
                if self.peek()[1] != ")":
                    args.append(self.expr(0))
                    while self.peek()[1] == ",":
                        self.next()
                        args.append(self.expr(0))
                self.expect(")")
                node = CNode("call", node.name if node.kind == "id" else "?", ([node] if node.kind != "id" else []) + args)
            elif v == ".":
                self.next()
                k2, v2 = self.next()
                self.expect("(")
                self.expect(")")
                node = CNode("method", v2, [node])
            else:
                return node

    def expr(self, minprec):
        left = self.unary()
        while True:
            k, v = self.peek()
            if v in BIN_PREC and BIN_PREC[v] >= minprec:
                self.next()
                right = self.expr(BIN_PREC[v] + 1)
                left = CNode("bin", v, [left, right])
            elif v == "?" and minprec <= 0:
                self.next()
                a = self.expr(0)
                self.expect(":")
                b = self.expr(0)
                left = CNode("ternary", "?:", [left, a, b])
            else:
                return left


def strip_parens(n):
    while n.kind == "paren":
        n = n.args[0]
    return n


def parse_c_function(text):
    """Parses `[template <...>] RetType name(Type a, Type b) { Type v = expr; ... return expr; }`.
    Returns dict(name, ret, args=[(type, name)], stmts=[(type, var, CNode)], ret_expr=CNode, template)."""
    text = re.sub(r"//[^\n]*", "", text)
    m = re.search(r"(?:template\s*<\s*typename\s+(\w+)\s*>\s*)?([\w:<>\s]+?)\s+(\w+)\s*\(([^)]*)\)\s*\{", text)
    if not m:
        raise ValueError("no function header")
    template = m.group(1)
    ret, name = m.group(2).strip(), m.group(3)
    args = []
    for a in m.group(4).split(","):
        a = a.strip()
        if a:
            t, n = a.rsplit(" ", 1)
            args.append((t.strip(), n.strip()))
    body = text[m.end():]
    end = body.rfind("}")
    body = body[:end]
    stmts, ret_expr = [], None
    for st in body.split(";"):
        st = st.strip()
        if not st:
            continue
        if st.startswith("return"):
            toks = c_tokens(st[len("return"):])
            p = CParser(toks)
            ret_expr = p.expr(0)
            if p.i != len(toks):
                raise ValueError(f"trailing tokens in return: {toks[p.i:][:5]}")
            continue
        mm = re.match(r"([\w:<>\s]+?)\s+(\w+)\s*=\s*(.*)$", st, re.S)
        if not mm:
            raise ValueError(f"cannot parse statement {st[:60]!r}")
        toks = c_tokens(mm.group(3))
        p = CParser(toks)
        e = p.expr(0)
        if p.i != len(toks):
            raise ValueError(f"trailing tokens in {st[:60]!r}: {toks[p.i:][:5]}")
        stmts.append((mm.group(1).strip(), mm.group(2), e))
    if ret_expr is None:
        raise ValueError("no return statement")
    return dict(name=name, ret=ret, args=args, stmts=stmts, ret_expr=ret_expr, template=template)
