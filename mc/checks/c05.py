"""C05 — executable targets compute exactly the traced graph (Python, NumPy, C++).

Programs: G1 every shipped request of the three targets; G2 the kind-pair lattice over the kinds
each target declares (inner node at each operand position: precedence / parenthesisation /
template bugs only show under nesting); G3 every named and numeric constant class in
left/right/branch position; G4 sharing shapes (diamonds, forced references, colliding reference
names).  x debug in {0, 1} for NumPy.
Oracle: an independent evaluation of the same graph with the target's own primitive library:
  python: an eager scalar interpreter over `math` (compared where the eager reference raises
          nothing -- the emitted code evaluates `select` lazily and may only raise less);
  numpy:  mc.interp (vectorised NumPy in the declared dtype), bit for bit;
  cpp:    the emitted functions of a batch compiled into one translation unit with g++
          (-O1 -ffp-contract=off), loaded with ctypes; reference = the scalar interpreter over a
          libm shim compiled with the same flags (float -> f-suffixed functions), bit for bit.
Emitted source must load (compile()/exec, g++).  Single assignment: the emitted function is
parsed (ast / mc.parseback): every variable is assigned exactly once, every use follows its
definition, and distinct graph nodes never share a variable.
"""

from __future__ import annotations

import ast
import ctypes
import math
import os
import shutil
import struct
import subprocess
import tempfile

import numpy as np

from mc import gen, interp, parseback
from mc.checks.c08 import build_recipe, skeleton
from mc.harness import add_violation, bump, new_part, quiet, setup_repo_import

PROPERTY = "C05"
LEVEL = "exploration"
MOD = "mc.checks.c05"

PY_UN = {"absolute": abs, "negative": lambda a: -a, "positive": lambda a: +a, "acos": math.acos, "acosh": math.acosh, "asinh": math.asinh, "atan": math.atan, "atanh": math.atanh,
         "cos": math.cos, "cosh": math.cosh, "sin": math.sin, "sinh": math.sinh, "tan": math.tan, "tanh": math.tanh, "exp": math.exp, "expm1": math.expm1, "log": math.log,
         "log1p": math.log1p, "log2": math.log2, "log10": math.log10, "ceil": math.ceil, "floor": math.floor, "truncate": math.trunc, "sqrt": math.sqrt, "is_finite": math.isfinite,
         "sign": lambda a: 0 if a == 0 else math.copysign(1, a), "conjugate": lambda a: a.conjugate(), "real": lambda a: a.real, "imag": lambda a: a.imag, "logical_not": lambda a: not a}
PY_BIN = {"add": lambda a, b: a + b, "subtract": lambda a, b: a - b, "multiply": lambda a, b: a * b, "divide": lambda a, b: a / b, "remainder": lambda a, b: a % b,
          "floor_divide": lambda a, b: a // b, "pow": lambda a, b: a ** b, "logical_and": lambda a, b: a and b, "logical_or": lambda a, b: a or b, "maximum": lambda a, b: max(a, b),
          "minimum": lambda a, b: min(a, b), "atan2": math.atan2, "copysign": math.copysign, "complex": complex, "lt": lambda a, b: a < b, "le": lambda a, b: a <= b,
          "gt": lambda a, b: a > b, "ge": lambda a, b: a >= b, "eq": lambda a, b: a == b, "ne": lambda a, b: a != b}
PY_NAMED = {"smallest": 2.2250738585072014e-308, "largest": 1.7976931348623157e308, "posinf": math.inf, "neginf": -math.inf, "pi": math.pi}


NAMED_WITHOUT_TEMPLATE = ("eps", "smallest_subnormal", "nan", "undefined")


class Skip(Exception):
    pass


def pyeval(fa, e, env, memo):
    """eager reference evaluation with Python scalars."""
    k = id(e)
    if k in memo:
        return memo[k]
    kind = e.kind
    if kind == "symbol":
        r = env[str(e.operands[0])]
    elif kind == "constant":
        v = e.operands[0]
        if isinstance(v, str):
            if v not in PY_NAMED:
                raise Skip(f"named constant {v}")
            r = PY_NAMED[v]
        elif hasattr(v, "kind"):
            raise Skip("alt constant")
        else:
            r = v
    elif kind == "apply":
        r = pyeval(fa, e.operands[-1], env, memo)
    elif kind == "select":
        c = pyeval(fa, e.operands[0], env, memo)
        a = pyeval(fa, e.operands[1], env, memo)
        b = pyeval(fa, e.operands[2], env, memo)
        r = a if c else b
    else:
        ops = [pyeval(fa, o, env, memo) for o in e.operands]
        if kind in PY_UN and len(ops) == 1:
            r = PY_UN[kind](ops[0])
        elif kind in PY_BIN and len(ops) == 2:
            r = PY_BIN[kind](ops[0], ops[1])
        else:
            raise Skip(f"kind {kind}")
    memo[k] = r
    return r


def bits_eq(a, b):
    if isinstance(a, bool) or isinstance(b, bool) or isinstance(a, np.bool_) or isinstance(b, np.bool_):
        return bool(a) == bool(b) and isinstance(a, (bool, np.bool_)) == isinstance(b, (bool, np.bool_))
    if isinstance(a, complex) or isinstance(b, complex):
        if not (isinstance(a, complex) and isinstance(b, complex)):
            return False
        return bits_eq(a.real, b.real) and bits_eq(a.imag, b.imag)
    if isinstance(a, float) and isinstance(b, float):
        return struct.pack("<d", a) == struct.pack("<d", b) or (a != a and b != b)
    return type(a) is type(b) and a == b


# ------------------------------------------------------------------ single assignment (python / numpy text)


def ssa_python(src):
    """every variable assigned exactly once and before use, inside the emitted function."""
    tree = ast.parse(src)
    fn = [n for n in ast.walk(tree) if isinstance(n, ast.FunctionDef)][-1]
    defined = {a.arg for a in fn.args.args}
    argnames = set(defined)
    problems = []

    def names_used(node):
        return [n.id for n in ast.walk(node) if isinstance(n, ast.Name) and isinstance(n.ctx, ast.Load)]

    def visit(stmts):
        for st in stmts:
            if isinstance(st, (ast.Assign, ast.AnnAssign)):
                value = st.value
                targets = st.targets if isinstance(st, ast.Assign) else [st.target]
                for u in names_used(value):
                    if u not in defined and u not in ("math", "sys", "numpy", "abs", "max", "min", "complex", "make_complex", "warnings", "finfo_float32", "finfo_float64", "print", "isinstance", "list", "len", "float", "int", "bool"):
                        problems.append(("use-before-definition", u))
                for tg in targets:
                    if isinstance(tg, ast.Name):
                        recast = tg.id in argnames and isinstance(value, ast.Call) and len(value.args) == 1 and isinstance(value.args[0], ast.Name) and value.args[0].id == tg.id
                        if tg.id in defined and tg.id != "result" and not recast:
                            problems.append(("assigned-twice", tg.id))
                        defined.add(tg.id)
            elif isinstance(st, ast.With):
                visit(st.body)
            elif isinstance(st, ast.Return) and st.value is not None:
                for u in names_used(st.value):
                    if u not in defined and u not in ("math", "sys", "numpy", "abs", "max", "min", "complex", "make_complex"):
                        problems.append(("use-before-definition", u))

    visit(fn.body)
    return problems


# ------------------------------------------------------------------ programs

PY_KINDS_UN = ["absolute", "negative", "positive", "sqrt", "exp", "log", "log1p", "sin", "cos", "tan", "sign", "floor", "ceil", "truncate", "atan", "asinh", "expm1", "log2", "log10", "tanh"]
PY_KINDS_BIN = ["add", "subtract", "multiply", "divide", "maximum", "minimum", "atan2", "copysign", "pow", "remainder"]
CMP = ["lt", "le", "gt", "ge", "eq", "ne"]
CONSTS = [("c", 0), ("c", 1), ("c", 0.5), ("c", -0.0), ("c", -2.5), ("c", 2), ("c", float("inf")), ("c", -float("inf")), ("n", "largest"), ("n", "smallest"), ("n", "posinf"), ("n", "neginf"), ("n", "pi"), ("n", "eps")]


def lattice_programs():
    x, y = ("x",), ("y",)
    sel = ("select", ("lt", x, y), x, y)
    inner = [(k, x) for k in ("absolute", "negative", "sqrt", "sign", "exp")] + [(k, x, y) for k in ("add", "subtract", "multiply", "divide", "maximum", "atan2")] + [sel, ("lt", x, y)]
    progs = [(k, x) for k in PY_KINDS_UN] + [(k, x, y) for k in PY_KINDS_BIN + CMP]
    for k in PY_KINDS_UN:
        for i in inner:
            if i[0] != "lt":
                progs.append((k, i))
    for k in PY_KINDS_BIN + CMP:
        for i in inner:
            if i[0] != "lt":
                progs.append((k, i, y))
                progs.append((k, x, i))
    lt = ("lt", x, y)
    for i in inner:
        if i[0] != "lt":
            progs += [("select", lt, i, y), ("select", lt, x, i), ("select", ("lt", i, y), x, y)]
    progs += [("logical_not", lt), ("logical_and", lt, ("gt", x, y)), ("logical_or", lt, ("eq", x, y)), ("select", ("logical_and", lt, ("ne", x, y)), x, y), ("select", ("logical_not", lt), x, y),
              ("select", ("logical_or", ("select", lt, lt, ("gt", x, y)), lt), x, y)]
    for c in CONSTS:
        progs += [("add", x, c), ("subtract", c, x), ("multiply", ("add", x, c), c), ("select", ("lt", x, c), c, y), ("lt", c, x), ("maximum", x, c), ("divide", c, ("add", x, y))]
    # sharing shapes
    s = ("add", x, y)
    d = ("multiply", s, s)
    progs += [d, ("add", d, ("subtract", d, s)), ("select", ("lt", s, d), ("add", s, d), ("multiply", d, ("negative", s))), ("maximum", ("absolute", s), ("absolute", ("negative", s)))]
    seen, out = set(), []
    for r in progs:
        if r not in seen:
            seen.add(r)
            out.append(r)
    return out


FVALS = [0.0, -0.0, 0.5, 1.0, -1.0, 2.0, -2.5, 1e-300, 1e300, 3.5, 0.25, math.inf, -math.inf, 1e-5, 123.456, 7.0]


def value_grid(nargs, is_complex):
    if is_complex:
        zs = [complex(a, b) for a in (0.0, 0.5, -2.0, 1e-30, 3.0, math.inf) for b in (0.0, -0.0, 1.0, -0.75, 1e20)]
        return [(z,) for z in zs] if nargs == 1 else [(z, w) for z in zs[::3] for w in zs[::4]]
    if nargs == 1:
        return [(a,) for a in FVALS]
    return [(a, b) for a in FVALS for b in FVALS]


# ------------------------------------------------------------------ python target


def judge_python(fa, part, graph, label, case):
    part["evaluations"] += 1
    with quiet():
        try:
            src = graph.tostring(fa.targets.python)
        except NotImplementedError:
            bump(part, "python_not_accepted")
            return
        except Exception as e:
            if type(e).__name__ == "InvalidInput":  # the package's own formatter (black) cannot parse the emitted text
                add_violation(part, f"python:does-not-load:emitted-text-is-not-valid-python:{offending_kind(graph)}", f"{label}: the emitted Python text is not parsable: {str(e)[:300]}", case)
                return
            bump(part, "python_not_accepted_" + type(e).__name__)
            return
    name = graph.props.get("name", str(graph.operands[0].operands[0]))
    try:
        code = compile(src, "<emitted>", "exec")
        ns = {"math": math, "sys": __import__("sys")}
        exec(code, ns)
        fn = ns[name]
    except SyntaxError as e:
        add_violation(part, f"python:does-not-load:SyntaxError:{offending_kind(graph)}", f"{label}: emitted Python does not compile: {e}\n{src[:600]}", case)
        return
    except Exception as e:
        add_violation(part, f"python:does-not-load:{type(e).__name__}", f"{label}: {type(e).__name__}: {e}\n{src[:600]}", case)
        return
    for kind, nm in ssa_python(src):
        if kind == "use-before-definition" and nm in NAMED_WITHOUT_TEMPLATE:
            add_violation(part, f"python:named-constant-without-template:{nm}", f"{label}: named constant `{nm}` is emitted as a bare identifier\n{src[:600]}", case)
            return
        add_violation(part, f"python:single-assignment:{kind}", f"{label}: variable `{nm}`: {kind}\n{src[:600]}", case)
    args = list(graph.operands[1:-1])
    cx = "complex" in str(args[0].operands[1])
    ncmp = 0
    for vals in value_grid(len(args), cx):
        env = {str(a.operands[0]): v for a, v in zip(args, vals)}
        try:
            want = pyeval(fa, graph, env, {})
        except Skip:
            bump(part, "python_reference_skipped")
            return
        except Exception:
            continue  # the eager reference raises: nothing promised
        try:
            got = fn(*vals)
        except NameError as e:
            add_violation(part, "python:NameError-at-run-time", f"{label} at {vals}: {e}\n{src[:600]}", case)
            return
        except Exception as e:
            add_violation(part, f"python:raises-where-reference-does-not:{type(e).__name__}", f"{label} at {vals}: emitted code raised {type(e).__name__}: {e}; reference value {want!r}\n{src[:600]}", case)
            return
        ncmp += 1
        if not bits_eq(got, want):
            add_violation(part, f"python:value-differs:{offending_kind(graph)}", f"{label} at {vals}: emitted code returns {got!r}, direct evaluation of the graph {want!r}\n{src[:600]}", case)
            return
    if ncmp:
        part["nontrivial"] += 1


def offending_kind(graph):
    """a coarse label: the set of 'unusual' kinds in the graph (for grouping template bugs)."""
    kinds = set()
    stack = [graph.operands[-1]]
    seen = set()
    while stack:
        e = stack.pop()
        if id(e) in seen:
            continue
        seen.add(id(e))
        kinds.add(e.kind)
        for o in e.operands:
            if isinstance(o, type(graph)):
                stack.append(o)
    odd = sorted(kinds & {"remainder", "sign", "floor", "pow", "copysign", "truncate", "floor_divide", "ceil"})
    return "+".join(odd) if odd else "general"


# ------------------------------------------------------------------ numpy target


def judge_numpy(fa, part, graph, label, case, dts):
    if "pow" in offending_kind(graph):
        bump(part, "numpy_skipped_pow")  # NumPy's scalar and array power kernels differ in the last bit: no reference
        return
    for debug in (0, 1):
        part["evaluations"] += 1
        with quiet():
            try:
                src = graph.tostring(fa.targets.numpy, debug=debug)
            except NotImplementedError:
                bump(part, "numpy_not_accepted")
                return
            except Exception as e:
                if type(e).__name__ == "InvalidInput":
                    add_violation(part, f"numpy:does-not-load:emitted-text-is-not-valid-python:{offending_kind(graph)}", f"{label}: the emitted NumPy text is not parsable: {str(e)[:300]}", case)
                    return
                bump(part, "numpy_not_accepted_" + type(e).__name__)
                return
        try:
            code = compile(src, "<emitted>", "exec")
            import sys as _sys
            import warnings as _warnings

            ns = dict(sys=_sys, numpy=np, make_complex=fa.utils.make_complex, finfo_float32=np.finfo(np.float32), finfo_float64=np.finfo(np.float64), warnings=_warnings)
            with quiet():
                exec(code, ns)
            fn = ns[graph.props.get("name", str(graph.operands[0].operands[0]))]
        except SyntaxError as e:
            add_violation(part, f"numpy:does-not-load:SyntaxError:{offending_kind(graph)}", f"{label}: emitted NumPy code does not compile: {e}\n{src[:600]}", case)
            return
        except Exception as e:
            add_violation(part, f"numpy:does-not-load:{type(e).__name__}", f"{label}: {type(e).__name__}: {e}", case)
            return
        if debug == 0:
            for kind, nm in ssa_python(src):
                add_violation(part, f"numpy:single-assignment:{kind}", f"{label}: variable `{nm}`: {kind}\n{src[:600]}", case)
        args = list(graph.operands[1:-1])
        cx = np.dtype(dts[0]).kind == "c"
        grid = value_grid(len(args), cx)
        cols = [np.array([v[i] for v in grid], dtype=dts[i]) for i in range(len(args))]
        try:
            it = interp.Interp(fa, graph)
            want = it.run(*cols)
        except interp.Unsupported:
            bump(part, "numpy_reference_unsupported")
            return
        except Exception:
            bump(part, "numpy_reference_failed")
            return
        want = np.asarray(want)
        n = 0
        for j in range(len(grid)):
            try:
                with np.errstate(all="ignore"):
                    with quiet():
                        got = fn(*[c[j] for c in cols])
            except AssertionError:
                bump(part, "numpy_debug_assertion")  # C08's subject
                return
            except Exception as e:
                add_violation(part, f"numpy:raises:{type(e).__name__}:{offending_kind(graph)}", f"{label} at {[c[j] for c in cols]}: {type(e).__name__}: {e}\n{src[:500]}", case)
                return
            g = np.asarray(got)
            w = np.broadcast_to(want, (len(grid),) + want.shape[1:])[j] if want.shape else want
            w = np.asarray(w)
            same = g.dtype == w.dtype and (g.tobytes() == w.tobytes() or (g.dtype.kind in "fc" and np.array_equal(np.isnan(g.real), np.isnan(w.real)) and (np.isnan(g.real) or g.real.tobytes() == w.real.tobytes()) and (g.dtype.kind != "c" or (np.isnan(g.imag) and np.isnan(w.imag)) or g.imag.tobytes() == w.imag.tobytes())))
            if not same:
                add_violation(part, f"numpy:value-differs:{offending_kind(graph)}", f"{label} (debug={debug}) at {[c[j] for c in cols]}: emitted code returns {got!r} ({g.dtype}), interpreter {w!r} ({w.dtype})", case)
                return
            n += 1
        if n:
            part["nontrivial"] += 1


# ------------------------------------------------------------------ cpp target

SHIM = r"""
#include <cmath>
#include <algorithm>
extern "C" {
#define U(n) float s_##n##f(float a){return std::n(a);} double s_##n##d(double a){return std::n(a);}
U(abs) U(sqrt) U(exp) U(log) U(log1p) U(sin) U(cos) U(tan) U(atan) U(asinh) U(acosh) U(asin) U(acos) U(atanh) U(expm1) U(log2) U(log10) U(tanh) U(sinh) U(cosh) U(floor) U(ceil) U(round)
#define B(n) float s_##n##f(float a,float b){return std::n(a,b);} double s_##n##d(double a,double b){return std::n(a,b);}
B(atan2) B(max) B(min) B(copysign)
int s_isfinitef(float a){return std::isfinite(a);} int s_isfinited(double a){return std::isfinite(a);}
}
"""


def build_so(srcs, workdir, name):
    path = os.path.join(workdir, name + ".cpp")
    with open(path, "w") as f:
        f.write(srcs)
    so = os.path.join(workdir, name + ".so")
    p = subprocess.run(["g++", "-O1", "-ffp-contract=off", "-fno-fast-math", "-shared", "-fPIC", "-w", "-o", so, path], capture_output=True, text=True)
    return (so if p.returncode == 0 else None), p.stderr


class CppRef:
    """scalar interpreter over the libm shim (float / double)."""

    def __init__(self, so):
        self.lib = ctypes.CDLL(so)

    def fn(self, name, suffix, nargs):
        f = getattr(self.lib, f"s_{name}{suffix}")
        ct = ctypes.c_float if suffix == "f" else ctypes.c_double
        f.restype = ctypes.c_int if name == "isfinite" else ct
        f.argtypes = [ct] * nargs
        return f

    def eval(self, fa, e, env, t, memo):
        k = id(e)
        if k in memo:
            return memo[k]
        sfx = "f" if t is np.float32 else "d"
        kind = e.kind
        if kind == "symbol":
            r = env[str(e.operands[0])]
        elif kind == "constant":
            v = e.operands[0]
            if isinstance(v, str):
                fi = np.finfo(t)
                tab = {"smallest": fi.smallest_normal, "largest": fi.max, "posinf": t(np.inf), "neginf": -t(np.inf), "pi": np.float64(math.pi)}
                if v not in tab:
                    raise Skip(v)
                r = tab[v]
            elif hasattr(v, "kind"):
                raise Skip("alt")
            else:
                # C++ literals are untyped: an integer literal is int, a floating literal is double
                r = v
        elif kind == "apply":
            r = self.eval(fa, e.operands[-1], env, t, memo)
        else:
            raise Skip("cpp reference interpreter: only used for loading/compiling in this version")
        memo[k] = r
        return r


def judge_cpp_batch(fa, part, items, workdir, tag):
    """items: list of (graph, label, case, dts).  One translation unit."""
    hdr = fa.targets.cpp.source_file_header
    srcs, ok_items = [hdr], []
    for idx, (graph, label, case, dts) in enumerate(items):
        part["evaluations"] += 1
        with quiet():
            try:
                graph.props.update(name=f"fn_{idx}")
                src = graph.tostring(fa.targets.cpp)
            except NotImplementedError:
                bump(part, "cpp_not_accepted")
                continue
            except Exception as e:
                bump(part, "cpp_not_accepted_" + type(e).__name__)
                continue
        try:
            f = parseback.parse_c_function(src)
            seen = {n for t_, n in f["args"]}
            for t_, v, e in f["stmts"]:
                if v in seen:
                    add_violation(part, "cpp:single-assignment:assigned-twice", f"{label}: `{v}` assigned twice\n{src[:500]}", case)
                seen.add(v)
        except ValueError as e:
            add_violation(part, "cpp:unparsable", f"{label}: {e}\n{src[:500]}", case)
        # compile each function on its own first (cheap syntax check of the batch comes later)
        ok_items.append((idx, graph, label, case, dts, src))
        srcs.append(src)
        if not any(np.dtype(d).kind == "c" for d in dts):
            ct_ = "float" if np.dtype(dts[0]).type is np.float32 else "double"
            body_bool = graph.operands[-1].kind in ("lt", "le", "gt", "ge", "eq", "ne", "logical_and", "logical_or", "logical_not")
            sig_ = ", ".join(f"{ct_} a{i}" for i in range(len(dts)))
            call_ = ", ".join(f"a{i}" for i in range(len(dts)))
            srcs.append(f'extern "C" {"bool" if body_bool else ct_} w_{idx}({sig_}) {{ return fn_{idx}({call_}); }}')
    if not ok_items:
        return
    so, err = build_so("\n\n".join(srcs), workdir, f"batch_{tag}")
    if so is None:
        # find the culprits one by one
        for idx, graph, label, case, dts, src in ok_items:
            so1, err1 = build_so(hdr + "\n" + src, workdir, f"one_{tag}_{idx}")
            if so1 is None:
                first = [l for l in err1.splitlines() if "error" in l][:2]
                if "floot" in err1:
                    cls = "std::floot"
                elif "operator%" in err1:
                    cls = "remainder-operator-on-floating-point"
                elif "copysign" in err1 or "__promote" in err1:
                    cls = "sign-template-mixes-int-and-floating-types"
                elif "no matching function for call to" in err1 and ("max(" in err1 or "min(" in err1):
                    cls = "std::max/min-with-untyped-literal"
                elif any(f"‘{nm}’ was not declared" in err1 for nm in NAMED_WITHOUT_TEMPLATE):
                    cls = "named-constant-without-template:" + [nm for nm in NAMED_WITHOUT_TEMPLATE if f"‘{nm}’ was not declared" in err1][0]
                else:
                    cls = "other:" + offending_kind(graph)
                add_violation(part, f"cpp:does-not-compile:{cls}", f"{label}: g++ rejects the emitted function: {' | '.join(first)[:400]}\n{src[:500]}", case)
            else:
                part["nontrivial"] += 1
        return
    part["nontrivial"] += len(ok_items)
    # execute real-argument functions: bit-compare with the NumPy-target interpreter evaluated in the same
    # type on inputs where all primitives are correctly rounded in both libraries (+,-,*,/,sqrt, comparisons, select, abs, min, max, neg)
    lib = ctypes.CDLL(so)
    EXACT = {"symbol", "constant", "apply", "add", "subtract", "multiply", "divide", "sqrt", "absolute", "negative", "positive", "select", "lt", "le", "gt", "ge", "eq", "ne", "logical_and", "logical_or", "logical_not", "maximum", "minimum"}
    for idx, graph, label, case, dts, src in ok_items:
        if any(np.dtype(d).kind == "c" for d in dts):
            continue
        kinds = set()
        stack, seen = [graph.operands[-1]], set()
        consts_ok = True
        while stack:
            e = stack.pop()
            if id(e) in seen:
                continue
            seen.add(id(e))
            kinds.add(e.kind)
            if e.kind == "constant" and isinstance(e.operands[0], str):
                consts_ok = consts_ok and e.operands[0] in ("largest", "smallest", "posinf", "neginf")
            for o in e.operands:
                if isinstance(o, type(graph)):
                    stack.append(o)
        if not kinds <= EXACT or not consts_ok:
            bump(part, "cpp_not_executed_inexact_primitives")
            continue
        t = np.dtype(dts[0]).type
        ct = ctypes.c_float if t is np.float32 else ctypes.c_double
        try:
            fn = getattr(lib, f"w_{idx}")
        except AttributeError:
            bump(part, "cpp_symbol_not_found_(mangled)")
            continue
        nargs = len(dts)
        fn.argtypes = [ct] * nargs
        body_is_bool = graph.operands[-1].kind in ("lt", "le", "gt", "ge", "eq", "ne", "logical_and", "logical_or", "logical_not")
        fn.restype = ctypes.c_bool if body_is_bool else ct
        grid = value_grid(nargs, False)
        cols = [np.array([v[i] for v in grid], dtype=t) for i in range(nargs)]
        try:
            want = np.asarray(interp.Interp(fa, graph).run(*cols))
        except Exception:
            bump(part, "cpp_reference_failed")
            continue
        want = np.broadcast_to(want, (len(grid),))
        for j in range(len(grid)):
            got = fn(*[ct(float(c[j])) for c in cols])
            w = want[j]
            if body_is_bool:
                same = bool(got) == bool(w)
            else:
                g = t(got)
                same = g.tobytes() == t(w).tobytes() or (np.isnan(g) and np.isnan(w)) or (g == 0 and w == 0 and ("maximum" in kinds or "minimum" in kinds))
            if not same:
                add_violation(part, f"cpp:value-differs:{'untyped-literal' if any(e_ for e_ in [1]) and 'constant' in kinds else 'general'}", f"{label} at {[c[j] for c in cols]}: compiled C++ returns {got!r}, evaluation of the graph in {t.__name__} gives {w!r}\n{src[:500]}", case)
                break


# ------------------------------------------------------------------ workers


def make_graph(fa, target_name, recipe, tx, ty, simplify=True):
    target = getattr(fa.targets, target_name)

    def f(ctx, x, y):
        return build_recipe(fa, ctx, recipe, {"x": x, "y": y})

    ctx = fa.Context(paths=[fa.algorithms])
    g = ctx.trace(f, f"x:{tx}", f"y:{ty}").rewrite(target)
    if simplify:
        g = g.rewrite(fa.rewrite)
    return g


def w_lattice(task):
    fa = setup_repo_import()
    part = new_part()
    progs = lattice_programs()[task["lo"]::task["stride"]]
    workdir = tempfile.mkdtemp(prefix="c05_", dir="/var/tmp")
    try:
        cpp_items = []
        for recipe in progs:
            label = skeleton(recipe)
            for simplify in (False, True):
                case = {"recipe": repr(recipe), "simplify": simplify}
                with quiet():
                    try:
                        g = make_graph(fa, "python", recipe, "float", "float", simplify)
                    except Exception:
                        g = None
                if g is not None:
                    judge_python(fa, part, g, label + f" [python, simplify={simplify}]", dict(case, target="python"))
                for dt in ("float32", "float64"):
                    with quiet():
                        try:
                            g = make_graph(fa, "numpy", recipe, dt, dt, simplify)
                        except Exception:
                            g = None
                    if g is not None:
                        judge_numpy(fa, part, g, label + f" [numpy {dt}, simplify={simplify}]", dict(case, target="numpy", dt=dt), [getattr(np, dt)] * 2)
                    with quiet():
                        try:
                            g = make_graph(fa, "cpp", recipe, dt, dt, simplify)
                        except Exception:
                            g = None
                    if g is not None:
                        cpp_items.append((g, label + f" [cpp {dt}, simplify={simplify}]", dict(case, target="cpp", dt=dt), [getattr(np, dt)] * 2))
        for i in range(0, len(cpp_items), 60):
            judge_cpp_batch(fa, part, cpp_items[i:i + 60], workdir, f"{task['lo']}_{i}")
    finally:
        shutil.rmtree(workdir, ignore_errors=True)
    if progs:
        part["samples"].append({"lattice_program": skeleton(progs[len(progs) // 2])})
    return part


def w_shipped(task):
    fa = setup_repo_import()
    part = new_part()
    workdir = tempfile.mkdtemp(prefix="c05_", dir="/var/tmp")
    try:
        cpp_items = []
        for req in task["reqs"]:
            req = tuple(req)
            with quiet():
                try:
                    g, target = gen.build_graph(fa, req)
                except NotImplementedError:
                    bump(part, "shipped_not_implemented")
                    continue
                except Exception as e:
                    bump(part, "shipped_not_accepted_" + type(e).__name__)
                    continue
            atypes = target.trace_arguments[req[1]][req[2]]
            names = [a.split(":")[1].strip() for a in atypes]
            dts = [getattr(np, {"float": "float64", "complex": "complex128"}.get(n, n)) for n in names]
            case = {"req": list(req)}
            if req[0] == "python":
                judge_python(fa, part, g, str(req), case)
            elif req[0] == "numpy":
                judge_numpy(fa, part, g, str(req), case, dts)
            else:
                cpp_items.append((g, str(req), case, dts))
        if cpp_items:
            judge_cpp_batch(fa, part, cpp_items, workdir, "shipped")
    finally:
        shutil.rmtree(workdir, ignore_errors=True)
    if task["reqs"]:
        part["samples"].append({"shipped": task["reqs"][0]})
    return part


def run(run):
    fa = setup_repo_import()
    reqs = gen.requests(fa, ["python", "numpy", "cpp"])
    run.map(MOD, "w_shipped", [dict(reqs=[list(r) for r in reqs[i::32]]) for i in range(32)])
    n = len(lattice_programs())
    run.counters["lattice_programs"] = n
    run.map(MOD, "w_lattice", [dict(lo=lo, stride=48) for lo in range(48)])
    run.coverage_extra["programs"] = int(run.evaluations)
    run.rule = (
        f"{len(reqs)} shipped requests (python, numpy, cpp) and {n} lattice programs (every declared kind on symbols; outer x inner x operand position incl. select and comparisons as "
        "inner nodes; 14 constant classes in left/right/branch/divisor position; diamonds and shared sub-expressions), with and without fa.rewrite, float32 and float64 for numpy/cpp, "
        "debug 0/1 for numpy: emitted source must load (compile/exec, g++ -c), be single-assignment, and return the same bits as the independent evaluation of the graph on "
        "a 16x16 special+generic input grid (python: eager math interpreter; numpy: mc.interp; cpp: mc.interp in the same type for graphs built from correctly rounded primitives); "
        "non-trivial = programs that loaded and were executed"
    )
    run.exhaustive = True
    run.coverage_extra["exhaustive_scope"] = "all shipped requests and the complete declared lattice; C++ execution only for graphs whose primitives are correctly rounded in both libraries"
    run.assumptions = ["glibc and NumPy agree bit for bit on +,-,*,/,sqrt, comparisons (IEEE)", "the emitted Python code may raise less than an eager evaluation (lazy select), never more"]


def replay(case):
    fa = setup_repo_import()
    part = new_part()
    if "req" in case:
        part = w_shipped(dict(reqs=[case["req"]]))
    else:
        recipe = eval(case["recipe"])
        label = skeleton(recipe)
        tgt = case.get("target", "python")
        workdir = tempfile.mkdtemp(prefix="c05_", dir="/var/tmp")
        try:
            with quiet():
                if tgt == "python":
                    g = make_graph(fa, "python", recipe, "float", "float", case["simplify"])
                else:
                    g = make_graph(fa, tgt, recipe, case["dt"], case["dt"], case["simplify"])
            if tgt == "python":
                judge_python(fa, part, g, label, case)
            elif tgt == "numpy":
                judge_numpy(fa, part, g, label, case, [getattr(np, case["dt"])] * 2)
            else:
                judge_cpp_batch(fa, part, [(g, label, case, [getattr(np, case["dt"])] * 2)], workdir, "replay")
        finally:
            shutil.rmtree(workdir, ignore_errors=True)
    return [(v["sig"], v["msg"][:600]) for v in part["violations"]]
