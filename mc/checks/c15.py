"""C15 — multiprecision reference values are rounded correctly to the target type.

Part A (mpf2float): enumerates mpf values (sign, man, exp): for float16 every odd mantissa of up to
NB bits x every exponent that places the value between far-below-half-the-smallest-subnormal and
beyond the overflow threshold; for float32/float64 mantissas (m << k) + delta around every tie
shape over the full exponent range (strided by seed-phase for quick).  x flush in
{default, False, True}.  Oracle: mc.oracle.rn (integer RN-even).
   * result normal or overflow -> must equal rn(exact) bit for bit
   * |exact| < half the smallest subnormal -> signed zero
   * exact value itself a representable subnormal (flush off) -> returned unchanged
   * other subnormal-range values: counted, not judged (the statement promises nothing)
   * flush=True: never a non-zero subnormal; sign kept
Part B (backend): exact functions through vectorize_with_mpmath / numpy_with_mpmath for every float16
input x every (flush_subnormals, extra_prec, extra_prec_multiplier) option; expected = exact
value when it is representable, subnormals preserved unless flushing was requested.
"""

from __future__ import annotations

import itertools
from fractions import Fraction as F

import numpy as np

from mc import lattice
from mc.harness import add_violation, bump, new_part, setup_repo_import
from mc.oracle import FMT, frac, rn, rn_parts

PROPERTY = "C15"
LEVEL = "exploration"
MOD = "mc.checks.c15"
DT = {"float16": np.float16, "float32": np.float32, "float64": np.float64}


def bits(x):
    return int(np.asarray(x).view(FMT[np.dtype(type(x)).name]["ui"]))


def region(q, dtname, flush=False):
    """flush=True uses flush-to-zero semantics: the value is rounded to p bits with an unbounded
    exponent range first, and is 'subnormal-range' (flushable) iff that rounded value is tiny."""
    f = FMT[dtname]
    if flush is True:
        kind, v = rn_parts(q, dict(f, emin=-(10**6)))
        if kind == "fin" and 0 < abs(v) < F(2) ** f["emin"] and abs(q) >= F(2) ** (f["emin"] - f["p"] + 1) / 2:
            return "subnormal-range"
    a = abs(q)
    sn = F(2) ** f["emin"]
    ss = F(2) ** (f["emin"] - f["p"] + 1)
    if a == 0:
        return "zero"
    if a < ss / 2:
        return "below-half-subnormal"
    kind, v = rn_parts(q, f)
    if kind == "inf":
        return "overflow"
    if kind == "fin" and abs(v) >= sn:
        return "normal"
    return "subnormal-range"


def judge_mpf(u, ctx, part, dtname, sign, man, exp, flush):
    dtype = DT[dtname]
    f = FMT[dtname]
    q = F(man) * F(2) ** exp
    if sign:
        q = -q
    reg = region(q, dtname, flush)
    part["evaluations"] += 1
    case = {"kind": "mpf", "dtype": dtname, "sign": sign, "man": int(man), "exp": int(exp), "flush": repr(flush)}
    m = ctx.make_mpf((sign, man, exp, man.bit_length()))
    try:
        if flush == "default":
            got = u.mpf2float(dtype, m)
        else:
            got = u.mpf2float(dtype, m, flush_subnormals=flush)
    except Exception as e:
        add_violation(part, f"mpf2float:raises:{reg}:flush={flush}", f"mpf2float({dtname}, {sign, man, exp}) raised {type(e).__name__}: {e}", case)
        return
    if type(got) is not dtype:
        add_violation(part, f"mpf2float:type:{reg}", f"returned {type(got).__name__}", case)
        return
    want = rn(q, dtname)
    sig = None
    if reg in ("normal", "overflow"):
        part["nontrivial"] += 1
        if bits(got) != bits(want):
            sig = f"mpf2float:rounding:{reg}:flush={flush}"
    elif reg == "below-half-subnormal":
        z = -dtype(0) if sign else dtype(0)
        if bits(got) != bits(z):
            sig = f"mpf2float:signed-zero:{reg}:flush={flush}"
    elif reg == "subnormal-range":
        if flush is True:
            sn = np.finfo(dtype).smallest_normal
            ok = (got == 0 or abs(got) == sn) and bool(np.signbit(got)) == bool(sign)
            if not ok:
                sig = "mpf2float:flush-requested-but-subnormal-returned"
        else:
            exactly_representable = frac(want) == q
            if exactly_representable:
                part["nontrivial"] += 1
                if bits(got) != bits(want):
                    sig = f"mpf2float:subnormal-not-preserved:flush={flush}"
            else:
                bump(part, "subnormal_range_not_judged")
                # still: sign and magnitude order must be sane (between the two neighbours)
                lo, hi = sorted([frac(np.nextafter(want, dtype(0))), frac(np.nextafter(want, dtype(np.inf) if q > 0 else dtype(-np.inf)))])
                if not (lo <= frac(got) <= hi):
                    sig = f"mpf2float:subnormal-range-far-off:flush={flush}"
    if sig:
        add_violation(part, sig, f"mpf2float({dtname}, sign={sign} man={man:#x} exp={exp}, flush={flush}) = {got!r} (bits {bits(got):#x}); exact {float(q)!r} rounds to {want!r} (bits {bits(want):#x})", case)


def w_mpf16(task):
    import mpmath

    fa = setup_repo_import()
    u = fa.utils
    part = new_part()
    ctxs = []
    for prec in task["precs"]:
        c = mpmath.mp.clone()
        c.prec = prec
        ctxs.append(c)
    dtname = "float16"
    for man in task["mans"]:
        bl = man.bit_length()
        # value exponent (of leading bit) ranges over [-30, 18]
        for top in range(-30, 19):
            exp = top - (bl - 1)
            for sign in (0, 1):
                for flush in task["flush"]:
                    judge_mpf(u, ctxs[(man + top) % len(ctxs)], part, dtname, sign, man, exp, flush)
    part["samples"].append({"float16_mpf": {"man": task["mans"][0], "top_exponents": [-30, 18], "flush": [repr(f) for f in task["flush"]]}})
    return part


def tie_mantissas(p, ks, seed):
    """(m << k) + delta around ties of a p-bit format: m is a p-bit pattern, the k extra bits carry
    0, +-1, half, half+-1 (half = 1 << (k-1))."""
    out = set()
    pats = lattice.mantissa_patterns({11: np.float16, 24: np.float32, 53: np.float64}[p], 10, seed)
    for pat in pats:
        m = (1 << (p - 1)) | pat
        for k in ks:
            half = 1 << (k - 1)
            for delta in (0, 1, -1, half, half + 1, half - 1, (1 << k) - 1):
                v = (m << k) + delta
                if v > 0:
                    out.add(v)
    return sorted(out)


def w_mpfwide(task):
    import mpmath

    fa = setup_repo_import()
    u = fa.utils
    part = new_part()
    dtname = task["dtype"]
    f = FMT[dtname]
    ctx = mpmath.mp.clone()
    ctx.prec = task["prec"]
    for man in task["mans"]:
        bl = man.bit_length()
        while man % 2 == 0:
            man >>= 1
        blo = man.bit_length()
        for top in task["tops"]:
            exp = top - (bl - 1) + (bl - blo)
            for sign in (0, 1):
                for flush in ("default", False, True):
                    judge_mpf(u, ctx, part, dtname, sign, man, exp, flush)
    part["samples"].append({"wide_mpf": {"dtype": dtname, "man": hex(task["mans"][0]), "tops": task["tops"][:4]}})
    return part


# ------------------------------------------------------------------ backend

OPTS = [
    dict(),
    dict(flush_subnormals=False),
    dict(flush_subnormals=True),
    dict(extra_prec=7),
    dict(extra_prec_multiplier=2),
    dict(flush_subnormals=False, extra_prec=3, extra_prec_multiplier=1),
    dict(flush_subnormals=True, extra_prec=3, extra_prec_multiplier=1),
]


def f_identity(x):
    return x


def f_neg(x):
    return -x


def f_twice(x):
    return x * 2


def f_half(x):
    return x / 2


def f_sqrt(x):
    return x.context.sqrt(x) if x >= 0 else x


def f_add(x, y):
    return x + y


UNARY = {"identity": (f_identity, lambda q: q), "negative": (f_neg, lambda q: -q), "twice": (f_twice, lambda q: 2 * q), "half": (f_half, lambda q: q / 2)}


def expect_exact(q, dtype, dtname, neg_zero_in, flushing):
    """Expected float for an exactly known result q, or None if q is not representable."""
    r = rn(q, dtname)
    if np.isinf(r):
        return r
    if frac(r) != q:
        return None
    return r


def judge_backend_array(part, name, optkey, opts, dtname, xs, got, exact_fn):
    dtype = DT[dtname]
    fi = np.finfo(dtype)
    flushing = opts.get("flush_subnormals", False) is True
    if not (isinstance(got, np.ndarray) and got.dtype == dtype and got.shape == xs.shape):
        add_violation(part, f"backend:{name}:result-type", f"{name}{opts}: result {type(got).__name__} dtype={getattr(got, 'dtype', None)}", {"kind": "backend", "fn": name, "opts": optkey, "dtype": dtname, "x": [float(xs[0]).hex()]})
        return
    for x, g in zip(xs, got):
        part["evaluations"] += 1
        case = {"kind": "backend", "fn": name, "opts": optkey, "dtype": dtname, "x": [float(x).hex()]}
        if np.isnan(x):
            if not np.isnan(g):
                add_violation(part, f"backend:{name}:nan", f"{name}(nan) = {g!r}", case)
            continue
        if np.isinf(x):
            continue
        q = exact_fn(frac(x))
        if q is None:
            continue
        want = expect_exact(q, dtype, dtname, np.signbit(x), flushing)
        if want is None:
            bump(part, "backend_not_representable")
            continue
        xin_sub = x != 0 and abs(x) < fi.smallest_normal
        out_sub = want != 0 and abs(want) < fi.smallest_normal
        cls = ("sub-in" if xin_sub else "norm-in") + "," + ("sub-out" if out_sub else "zero-out" if want == 0 else "norm-out")
        part["nontrivial"] += 1 if want != 0 else 0
        if flushing and (out_sub or xin_sub):
            ok = not (g != 0 and abs(g) < fi.smallest_normal)  # flushed: no non-zero subnormal may come out
            if not ok:
                add_violation(part, f"backend:{name}:flush-requested-not-flushed:{cls}", f"{name} with {opts} on {x!r} returned subnormal {g!r}", case)
            continue
        same = (g == want) if want != 0 else (g == 0)
        if not same:
            add_violation(part, f"backend:{name}:value:{cls}:opts={optkey}", f"vectorize_with_mpmath({name}, {opts})({dtname} {x!r}) = {g!r}, exact result {want!r}", case)


def w_backend(task):
    fa = setup_repo_import()
    u = fa.utils
    part = new_part()
    dtname = task["dtype"]
    dtype = DT[dtname]
    xs = np.array(task["bits"], dtype=np.uint64).astype(FMT[dtname]["ui"]).view(dtype)
    for oi in task["opt_indices"]:
        opts = OPTS[oi]
        optkey = ",".join(f"{k}={v}" for k, v in sorted(opts.items())) or "none"
        for name, (fn, ex) in UNARY.items():
            try:
                got = u.vectorize_with_mpmath(fn, **opts)(xs)
            except Exception as e:
                add_violation(part, f"backend:{name}:raises:opts={optkey}", f"{type(e).__name__}: {e}", {"kind": "backend", "fn": name, "opts": optkey, "dtype": dtname, "x": [float(xs[0]).hex()]})
                continue
            judge_backend_array(part, name, optkey, opts, dtname, xs, got, ex)
        # sqrt: judged where the exact square root is rational-representable (perfect squares)
        try:
            got = u.vectorize_with_mpmath(f_sqrt, **opts)(xs)

            def ex_sqrt(q):
                if q < 0:
                    return None
                n, d = q.numerator, q.denominator
                import math

                rn_, rd = math.isqrt(n), math.isqrt(d)
                if rn_ * rn_ == n and rd * rd == d:
                    return F(rn_, rd)
                return None

            judge_backend_array(part, "sqrt", optkey, opts, dtname, xs, got, ex_sqrt)
        except Exception as e:
            add_violation(part, f"backend:sqrt:raises:opts={optkey}", f"{type(e).__name__}: {e}", {"kind": "backend", "fn": "sqrt", "opts": optkey, "dtype": dtname, "x": [float(xs[0]).hex()]})
        # namespace object: numpy_with_mpmath(**opts).negative / positive / square
        ns = u.numpy_with_mpmath(**opts)
        for name, ex in (("negative", lambda q: -q), ("positive", lambda q: q), ("square", lambda q: q * q), ("absolute", lambda q: abs(q))):
            try:
                got = getattr(ns, name)(xs)
            except Exception as e:
                add_violation(part, f"backend:ns.{name}:raises:opts={optkey}", f"{type(e).__name__}: {e}", {"kind": "backend", "fn": "ns." + name, "opts": optkey, "dtype": dtname, "x": [float(xs[0]).hex()]})
                continue
            judge_backend_array(part, "ns." + name, optkey, opts, dtname, xs, got, ex)
    part["samples"].append({"backend": dtname, "x0": float(xs[0]).hex(), "n": len(xs), "opts": [OPTS[i] for i in task["opt_indices"]]})
    return part


def w_backend_add(task):
    fa = setup_repo_import()
    u = fa.utils
    part = new_part()
    dtname = task["dtype"]
    dtype = DT[dtname]
    A = np.array(task["alphabet_bits"], dtype=np.uint64).astype(FMT[dtname]["ui"]).view(dtype)
    rows = A[task["rows"][0]:task["rows"][1]]
    if not len(rows):
        return part
    X, Y = np.meshgrid(rows, A, indexing="ij")
    X, Y = X.ravel(), Y.ravel()
    fi = np.finfo(dtype)
    for oi in task["opt_indices"]:
        opts = OPTS[oi]
        optkey = ",".join(f"{k}={v}" for k, v in sorted(opts.items())) or "none"
        flushing = opts.get("flush_subnormals", False) is True
        got = u.vectorize_with_mpmath(f_add, **opts)(X, Y)
        for x, y, g in zip(X, Y, got):
            part["evaluations"] += 1
            q = frac(x) + frac(y)
            want = expect_exact(q, dtype, dtname, False, flushing)
            if want is None:
                continue
            sub = (want != 0 and abs(want) < fi.smallest_normal) or (x != 0 and abs(x) < fi.smallest_normal) or (y != 0 and abs(y) < fi.smallest_normal)
            case = {"kind": "backend", "fn": "add", "opts": optkey, "dtype": dtname, "x": [float(x).hex(), float(y).hex()]}
            if flushing and sub:
                if g != 0 and abs(g) < fi.smallest_normal:
                    add_violation(part, "backend:add:flush-requested-not-flushed", f"add with {opts} on {x!r},{y!r} returned subnormal {g!r}", case)
                continue
            part["nontrivial"] += 1
            if not ((g == want) if want != 0 else (g == 0)):
                add_violation(part, f"backend:add:value:{'sub' if sub else 'norm'}:opts={optkey}", f"add({x!r},{y!r}) with {opts} = {g!r}, exact {want!r}", case)
    return part


def f_addsub(x, y):
    return (x + y) - y


def f_addsub2(x, y):
    return (y + x) - y


def f_add1sub1(x):
    return (x + 1) - 1


REUSE_OPTS = [dict(extra_prec_multiplier=2), dict(extra_prec_multiplier=1, extra_prec=5), dict(extra_prec=40), dict(extra_prec_multiplier=3, extra_prec=2)]


def reuse_points(dtname, opts):
    """x = +-2**-j for every j for which (x + 1) - 1 is exact in the working precision the options promise for this type
    (p + int(p*multiplier) + extra bits), so the exact result x must come back."""
    f = FMT[dtname]
    wp = f["p"] + int(f["p"] * opts.get("extra_prec_multiplier", 0)) + opts.get("extra_prec", 0)
    jmax = min(wp - 2, -(f["emin"] - f["p"] + 1))
    dtype = DT[dtname]
    return np.array([s_ * 2.0 ** -j for j in range(1, jmax + 1) for s_ in (1.0, -1.0)], dtype=dtype)


def w_backend_reuse(task):
    """histories on ONE vectorize_with_mpmath instance: the same object is called with arguments of a sequence of float
    types; every call must return what the options promise for that type (exact x for (x + 1) - 1 on the points whose
    intermediate fits the promised working precision), whatever was evaluated through the instance before."""
    fa = setup_repo_import()
    u = fa.utils
    part = new_part()
    for seq in task["seqs"]:
        for opts in REUSE_OPTS:
            optkey = ",".join(f"{k}={v}" for k, v in sorted(opts.items()))
            try:
                inst = u.vectorize_with_mpmath(f_add1sub1, **opts)
            except Exception as e:
                add_violation(part, f"backend:instance-reuse:raises:{type(e).__name__}", f"vectorize_with_mpmath((x+1)-1, {opts}) raised {e}", {"kind": "backend-reuse", "seq": seq, "opts": optkey})
                continue
            for step, dtname in enumerate(seq):
                xs = reuse_points(dtname, opts)
                part["evaluations"] += len(xs)
                if step:
                    part["nontrivial"] += len(xs)
                case = {"kind": "backend-reuse", "seq": seq, "opts": optkey}
                cls = "first-call" if step == 0 else ("after-narrower-type" if FMT[seq[step - 1]]["p"] < FMT[dtname]["p"] else ("after-wider-type" if FMT[seq[step - 1]]["p"] > FMT[dtname]["p"] else "after-same-type"))
                try:
                    got = np.asarray(inst(xs))
                except Exception as e:
                    add_violation(part, f"backend:instance-reuse:raises:{type(e).__name__}:{cls}", f"one vectorize_with_mpmath((x+1)-1, {opts}) instance called with {seq[:step + 1]}: {type(e).__name__}: {e}", case)
                    break
                if got.dtype != xs.dtype:
                    add_violation(part, f"backend:instance-reuse:result-type:{cls}", f"instance called with {seq[:step + 1]} returns {got.dtype}", case)
                    continue
                ui = FMT[dtname]["ui"]
                bad = np.flatnonzero(got.view(ui) != xs.view(ui))
                if len(bad):
                    i = int(bad[0])
                    add_violation(part, f"backend:instance-reuse:value:{cls}", f"one vectorize_with_mpmath((x+1)-1, {opts}) instance called with argument types {seq[:step + 1]} in turn: last call maps {dtname} {xs[i]!r} to {got[i]!r}; the promised working precision makes the exact result {xs[i]!r} representable ({len(bad)} of {len(xs)} points differ)", case)
    part["samples"].append({"backend_instance_reuse": "sequences of argument types on one instance", "sequences_in_task": len(task["seqs"])})
    return part


def w_backend_mixed(task):
    """binary functions on arguments of DIFFERENT float types: with extra precision the evaluation happens in the first
    argument's context, so (x + y) - y returns exactly x, in x's type, for every pair of argument types."""
    fa = setup_repo_import()
    u = fa.utils
    part = new_part()
    names = ("float16", "float32", "float64")
    for dxn in names:
        for dyn in names:
            dx, dy = DT[dxn], DT[dyn]
            px = FMT[dxn]["p"]
            w = px - 1
            ms = [0, 1, (1 << w) - 1, (1 << (w - 1)) + 1, 0x155555555555555 & ((1 << w) - 1), 0x0F0F0F0F0F0F0F & ((1 << w) - 1)]
            xs = np.array([s_ * (1.0 + m / float(1 << w)) * 2.0 ** e for e in range(-10, 3) for m in ms for s_ in (1.0, -1.0)], dtype=dx)
            ys = np.array([(0.5 + 0.4375 * (i % 7)) * (1 if i % 3 else -1) * 2.0 ** (i % 4) for i in range(len(xs))], dtype=dy)
            for opts in (dict(extra_prec_multiplier=4), dict(extra_prec=60), dict(extra_prec_multiplier=2, extra_prec=20)):
                optkey = ",".join(f"{k}={v}" for k, v in sorted(opts.items()))
                for fname, fn in (("(x+y)-y", f_addsub), ("(y+x)-y", f_addsub2)):
                    part["evaluations"] += len(xs)
                    case = {"kind": "backend-mixed", "dx": dxn, "dy": dyn, "opts": optkey, "fn": fname}
                    try:
                        got = u.vectorize_with_mpmath(fn, **opts)(xs, ys)
                    except Exception as e:
                        add_violation(part, f"backend:mixed-argument-types:raises:{type(e).__name__}", f"vectorize_with_mpmath({fname}, {opts})({dxn}, {dyn}) raised {type(e).__name__}: {e}", case)
                        continue
                    got = np.asarray(got)
                    if dxn != dyn:
                        part["nontrivial"] += len(xs)
                    # the result type follows the operand that leads the expression (x for (x+y)-y, y for (y+x)-y)
                    lead = dx if fn is f_addsub else dy
                    if got.dtype != np.dtype(lead):
                        add_violation(part, f"backend:mixed-argument-types:result-type:{'same' if dxn == dyn else 'different'}-types", f"vectorize_with_mpmath({fname}, {opts})({dxn} x, {dyn} y) returns {got.dtype}, expected {np.dtype(lead)}", case)
                        continue
                    with np.errstate(all="ignore"):
                        want = xs.astype(lead)  # the exact result x, rounded once to the result type
                    lname = np.dtype(lead).name
                    bad = np.flatnonzero(got.view(FMT[lname]["ui"]) != want.view(FMT[lname]["ui"]))
                    if len(bad):
                        i = int(bad[0])
                        add_violation(part, f"backend:mixed-argument-types:value:{'same' if dxn == dyn else 'different'}-types:expression-led-by-{'first' if fn is f_addsub else 'second'}-argument", f"vectorize_with_mpmath({fname}, {opts})({dxn} {xs[i]!r}, {dyn} {ys[i]!r}) = {got[i]!r}; with the requested extra precision the exact result {xs[i]!r} is representable ({len(bad)} of {len(xs)} points differ)", case)
    part["samples"].append({"backend_mixed_argument_types": "all ordered pairs of float16/32/64", "points_per_pair": 156})
    return part


def run(run):
    thorough = run.tier == "thorough"
    NB = 14 if thorough else 12
    mans = list(range(1, 1 << NB, 2))
    tasks = []
    nsh = 128 if thorough else 64
    for i in range(nsh):
        tasks.append(dict(mans=mans[i::nsh], precs=[11, 12, 22, 220], flush=["default", False, True]))
    run.map(MOD, "w_mpf16", tasks)
    tasks = []
    for dtname in ("float32", "float64"):
        f = FMT[dtname]
        ks = [1, 2, 3, 5, 8] if not thorough else [1, 2, 3, 4, 5, 6, 7, 8, 30]
        mans = tie_mantissas(f["p"], ks, run.seed)
        lo, hi = f["emin"] - f["p"] - 4, f["emax"] + 3
        stride = 1 if thorough else (8 if dtname == "float64" else 2)
        phase = run.seed % stride
        tops = [t for t in range(lo, hi + 1) if (t - lo) % stride == phase or t >= f["emax"] - 2 or t <= f["emin"] + 2]
        for i in range(32):
            tasks.append(dict(dtype=dtname, mans=mans[i::32], tops=tops, prec=4 * f["p"]))
    run.map(MOD, "w_mpfwide", tasks)
    # backend: all float16 inputs (incl. inf/nan), every option set
    allb = np.arange(1 << 16, dtype=np.int64)
    v16 = allb.astype(np.uint16).view(np.float16)
    sel = allb if thorough else allb[(allb % 4 == run.seed % 4) | (np.abs(v16) < np.float16(2.0 ** -13)) | ~np.isfinite(v16)]
    tasks = []
    for i in range(64):
        tasks.append(dict(dtype="float16", bits=sel[i::64].tolist(), opt_indices=list(range(len(OPTS)))))
    for dtname in ("float32", "float64"):
        lat = lattice.binade_lattice(DT[dtname], mantissas=4 if thorough else 2, estride=1 if thorough else 4, ephase=run.seed % 4, seed=run.seed, include_inf=True)
        b = [int(x) for x in lat.view(FMT[dtname]["ui"]).astype(np.uint64)]
        for i in range(16):
            tasks.append(dict(dtype=dtname, bits=b[i::16], opt_indices=[0, 1, 2, 5]))
    run.map(MOD, "w_backend", tasks)
    A = lattice.binade_lattice(np.float16, mantissas=3 if not thorough else 6, seed=run.seed)
    Ab = [int(x) for x in A.view(np.uint16)]
    nsh = 64
    step = (len(Ab) + nsh - 1) // nsh
    tasks = [dict(dtype="float16", alphabet_bits=Ab, rows=[i * step, min(len(Ab), (i + 1) * step)], opt_indices=[0, 2, 3] if not thorough else [0, 1, 2, 3, 4]) for i in range(nsh)]
    run.map(MOD, "w_backend_add", tasks)
    run.map(MOD, "w_backend_mixed", [dict()])
    import itertools

    dts = ("float16", "float32", "float64")
    seqs = [list(q) for n in ((1, 2, 3) if thorough else (1, 2)) for q in itertools.product(dts, repeat=n)]
    run.map(MOD, "w_backend_reuse", [dict(seqs=seqs[i::8]) for i in range(8)])
    run.counters["backend_instance_reuse_sequences"] = len(seqs)
    run.counters["float16_add_alphabet"] = len(Ab)
    run.rule = (
        f"mpf2float: every odd mantissa < 2**{NB} x leading-bit exponent -30..18 x sign x flush(default,False,True) for float16 (all ties, "
        "all subnormal boundaries, overflow edge); float32/64: tie-shaped mantissas (m<<k)+delta over the exponent range; backend: "
        "identity/negative/twice/half/sqrt/add and numpy_with_mpmath.negative/positive/square/absolute on float16 inputs x 7 option sets, "
        "binade lattices for float32/64; non-trivial = cases whose exact result is a non-zero value that is judged bit-for-bit"
    )
    run.exhaustive = thorough
    run.coverage_extra["exhaustive_scope"] = "float16 mpf space up to the stated mantissa width; backend over all float16 inputs in the thorough tier (quick: one residue class mod 4 + all subnormals)"
    run.assumptions = ["mpmath make_mpf((sign, man, exp, bc)) denotes (-1)**sign * man * 2**exp exactly", "results in the subnormal range are judged only where the statement promises something"]


def replay(case):
    import mpmath

    fa = setup_repo_import()
    u = fa.utils
    part = new_part()
    if case["kind"] == "backend-reuse":
        p2 = w_backend_reuse(dict(seqs=[case["seq"]]))
        return [(v["sig"], v["msg"]) for v in p2["violations"] if v["case"]["opts"] == case["opts"]]
    if case["kind"] == "backend-mixed":
        p2 = w_backend_mixed(dict())
        return [(v["sig"], v["msg"]) for v in p2["violations"] if v["case"]["dx"] == case["dx"] and v["case"]["dy"] == case["dy"]]
    if case["kind"] == "mpf":
        ctx = mpmath.mp.clone()
        ctx.prec = 64
        fl = {"'default'": "default", "True": True, "False": False}[case["flush"]]
        judge_mpf(u, ctx, part, case["dtype"], case["sign"], case["man"], case["exp"], fl)
    else:
        dtname = case["dtype"]
        dtype = DT[dtname]
        opts = {}
        if case["opts"] != "none":
            for kv in case["opts"].split(","):
                k, v = kv.split("=")
                opts[k] = {"True": True, "False": False}.get(v, None) if v in ("True", "False") else int(v)
        oi = OPTS.index(opts)
        xs = [dtype(float.fromhex(h)) for h in case["x"]]
        if case["fn"] == "add":
            b = [bits(x) for x in xs]
            t = dict(dtype=dtname, alphabet_bits=b, rows=[0, 2], opt_indices=[oi])
            p2 = w_backend_add(t)
        else:
            p2 = w_backend(dict(dtype=dtname, bits=[bits(xs[0])], opt_indices=[oi]))
        part["violations"] = p2["violations"]
    return [(v["sig"], v["msg"]) for v in part["violations"]]
