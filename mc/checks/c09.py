"""C09 — code generation is deterministic and history independent (explicit-state search over
request histories of one process).

Requests R = every (target, function, signature) of the five `trace_arguments` tables, generated as
in results/update.py.  Reference model: table request -> sha(text) with each request generated
alone in a pristine process (a NotImplementedError outcome is that request's "text").
 (i)   depth-2 histories, completely: for every ordered pair (p, r) a child forked from a pristine
       zygote (package imported, nothing generated) generates p then r; sha(r) must equal the table.
 (ii)  depth 3 over a subset (thorough).
 (iii) long walks: processes that visit an Eulerian circuit of the complete digraph on the request
       set (every ordered pair adjacent once), every generation compared with the table.
 (iv)  hash seeds: the whole catalogue in separate interpreters under several PYTHONHASHSEED values.
Every state is reached by running the real generator; global states (tmp-symbol counter,
definition registry, warn-once cache, vectorised-function cache) are canonicalised for counting.
"""

from __future__ import annotations

import json
import os
import subprocess
import sys

from mc import gen
from mc.harness import VERIF, add_violation, bump, new_part, setup_repo_import

PROPERTY = "C09"
LEVEL = "model_checking"
MOD = "mc.checks.c09"


def in_child(fn):
    """run fn() in a forked child of the current (pristine) process and return its JSON result."""
    r, w = os.pipe()
    pid = os.fork()
    if pid == 0:
        os.close(r)
        try:
            out = fn()
            data = json.dumps(out).encode()
        except BaseException as e:  # noqa
            data = json.dumps({"error": f"{type(e).__name__}: {e}"}).encode()
        with os.fdopen(w, "wb") as f:
            f.write(data)
        os._exit(0)
    os.close(w)
    with os.fdopen(r, "rb") as f:
        data = f.read()
    os.waitpid(pid, 0)
    return json.loads(data.decode())


def w_table(task):
    fa = setup_repo_import()
    part = new_part()
    table = {}
    for req in task["reqs"]:
        req = tuple(req)
        res = in_child(lambda: {"sha": gen.sha(gen.generate(fa, req)), "gs": list(gen.global_state(fa))})
        res2 = in_child(lambda: {"sha": gen.sha(gen.generate(fa, req))})
        part["evaluations"] += 2
        key = "/".join(map(str, req))
        if "error" in res or res.get("sha") != res2.get("sha"):
            add_violation(part, f"nondeterministic-from-pristine:{req[0]}:{req[1]}", f"request {req}: two pristine children gave {res} and {res2}", {"history": [list(req)], "kind": "pristine"})
        table[key] = res.get("sha")
        part["counters"].setdefault("gstates", []).append(repr(res.get("gs")))
    part["counters"]["table"] = [json.dumps(table, sort_keys=True)]
    return part


def w_histories(task):
    """histories = list of request sequences; each run in its own pristine child; the last element is judged."""
    fa = setup_repo_import()
    part = new_part()
    table = task["table"]
    for hist in task["hists"]:
        hist = [tuple(h) for h in hist]

        def body():
            out = []
            for req in hist:
                out.append(gen.sha(gen.generate(fa, req)))
            return {"shas": out, "gs": list(gen.global_state(fa))}

        res = in_child(body)
        part["evaluations"] += 1
        if "error" in res:
            add_violation(part, "history-run-fails", f"history {hist}: {res['error']}", {"history": [list(h) for h in hist], "kind": "history"})
            continue
        for req, s in zip(hist, res["shas"]):
            want = table["/".join(map(str, req))]
            if s != want:
                add_violation(part, f"history-dependent:{req[0]}:{req[1]}", f"in history {hist} the text of {req} has sha {s}, alone in a pristine process {want}", {"history": [list(h) for h in hist], "kind": "history"})
                break
        part["counters"].setdefault("gstates", []).append(repr(res.get("gs")))
        part["nontrivial"] += 1 if len(set(hist)) > 1 else 0
    if task["hists"]:
        part["samples"].append({"history": task["hists"][len(task["hists"]) // 2]})
    return part


def w_walk(task):
    fa = setup_repo_import()
    part = new_part()
    table = task["table"]
    seq = [tuple(r) for r in task["seq"]]

    def body():
        bad = None
        for n, req in enumerate(seq):
            s = gen.sha(gen.generate(fa, req))
            if s != table["/".join(map(str, req))]:
                bad = n
                break
        return {"bad": bad, "gs": list(gen.global_state(fa))}

    res = in_child(body)
    part["evaluations"] += len(seq)
    part["nontrivial"] += len(seq)
    if "error" in res:
        add_violation(part, "walk-fails", res["error"], {"history": [list(r) for r in seq[:50]], "kind": "history"})
    elif res["bad"] is not None:
        n = res["bad"]
        req = seq[n]
        # shrink: shortest suffix of the prefix that still reproduces (delta debugging by halving)
        prefix = seq[:n]
        lo = 0
        while lo < len(prefix):
            mid = (lo + len(prefix) + 1) // 2
            cand = prefix[mid:] + [req]
            r2 = in_child(lambda: {"s": [gen.sha(gen.generate(fa, q)) for q in cand][-1]})
            if r2.get("s") != table["/".join(map(str, req))]:
                prefix = prefix[mid:]
                lo = 0
                if len(prefix) <= 1:
                    break
            else:
                lo = mid
                if mid >= len(prefix):
                    break
        add_violation(part, f"history-dependent:{req[0]}:{req[1]}", f"after a walk of {n} generations the text of {req} differs from the pristine table; shrunk prefix {prefix[-6:]}", {"history": [list(r) for r in (prefix[-30:] + [req])], "kind": "history"})
    part["counters"].setdefault("gstates", []).append(repr(res.get("gs")))
    part["samples"].append({"walk_length": len(seq), "first": [list(r) for r in seq[:3]]})
    return part


def w_seed(task):
    part = new_part()
    env = dict(os.environ)
    env["PYTHONHASHSEED"] = str(task["seed"])
    env["PYTHONPATH"] = VERIF
    code = (
        "import sys, json; sys.path.insert(0, %r)\n"
        "from mc.harness import setup_repo_import\n"
        "from mc import gen\n"
        "fa = setup_repo_import()\n"
        "reqs = %r\n"
        "out = {'/'.join(map(str, r)): gen.sha(gen.generate(fa, tuple(r))) for r in reqs}\n"
        "out2 = {'/'.join(map(str, r)): gen.sha(gen.generate(fa, tuple(r))) for r in reversed(reqs)}\n"
        "sys.stdout.write('@@' + json.dumps([out, out2]))\n"
    ) % (VERIF, task["reqs"])
    p = subprocess.run([sys.executable, "-W", "ignore", "-c", code], env=env, capture_output=True, text=True, timeout=1200)
    part["evaluations"] += 2 * len(task["reqs"])
    part["nontrivial"] += len(task["reqs"])
    if "@@" not in p.stdout:
        add_violation(part, "seed-run-fails", f"PYTHONHASHSEED={task['seed']}: rc={p.returncode} {p.stderr[-500:]}", {"kind": "seed", "seed": task["seed"]})
        return part
    out, out2 = json.loads(p.stdout.split("@@", 1)[1])
    table = task["table"]
    for label, o in (("first pass", out), ("second pass, reversed order", out2)):
        for k, v in o.items():
            if v != table[k]:
                t, f = k.split("/")[:2]
                add_violation(part, f"hash-seed-dependent:{t}:{f}", f"PYTHONHASHSEED={task['seed']} ({label}): {k} has sha {v}, table {table[k]}", {"kind": "seed", "seed": task["seed"], "request": k})
    part["samples"].append({"hash_seed": task["seed"], "requests": len(task["reqs"])})
    return part


def w_reuse(task):
    """histories on ONE Context: sequences of same-signature definitions whose bodies share sub-expressions built in
    different orders; the text of the last one must equal its fresh-Context text up to a consistent renaming of
    generated variable names (names derived from construction counters legitimately differ) and layout."""
    fa = setup_repo_import()
    part = new_part()
    tname = task["target"]
    n = len(gen.REUSE_FUNCS)
    fresh = [gen.alpha(gen.reuse_generate(fa, tname, [i])[0]) for i in range(n)]
    import itertools

    seqs = [list(q) for L in task["lengths"] for q in itertools.product(range(n), repeat=L)]
    for seq in seqs:
        texts = gen.reuse_generate(fa, tname, seq)
        part["evaluations"] += 1
        part["nontrivial"] += 1 if len(set(seq)) > 1 else 0
        part["counters"]["reuse_transitions"] = part["counters"].get("reuse_transitions", 0) + len(seq)
        if gen.alpha(texts[-1]) != fresh[seq[-1]]:
            names = [gen.REUSE_FUNCS[i].__name__ for i in seq]
            add_violation(part, f"context-reuse-dependent:{tname}:{names[-1]}", f"one Context, {names} for {tname}: the text of {names[-1]} differs (beyond variable renaming) from its fresh-Context text:\n{texts[-1][:600]}", {"kind": "reuse", "target": tname, "seq": seq})
    part["samples"].append({"context_reuse": tname, "sequences": len(seqs)})
    return part


def w_shared_params(task):
    """histories whose Contexts are all built with ONE user-supplied parameters dict; the last text must equal the text
    generated alone with a fresh copy of that dict"""
    fa = setup_repo_import()
    part = new_part()
    ref = {}
    for req in {tuple(r) for pair in task["pairs"] for r in pair}:
        ref[req] = in_child(lambda: {"s": gen.sha(gen.shared_params_generate(fa, [req], dict(gen.SHARED_PARAMS))[0])}).get("s")
    for pair in task["pairs"]:
        hist = [tuple(r) for r in pair]
        res = in_child(lambda: {"s": [gen.sha(t) for t in gen.shared_params_generate(fa, hist, dict(gen.SHARED_PARAMS))]})
        part["evaluations"] += 1
        part["nontrivial"] += 1 if hist[0] != hist[1] else 0
        part["counters"]["shared_params_transitions"] = part["counters"].get("shared_params_transitions", 0) + len(hist)
        if "error" in res:
            add_violation(part, "shared-parameters-history-fails", f"{hist}: {res['error']}", {"kind": "shared-params", "history": [list(h) for h in hist]})
            continue
        if res["s"][-1] != ref[hist[-1]]:
            req = hist[-1]
            add_violation(part, f"shared-parameters-dict-dependent:{req[0]}:{req[1]}", f"Contexts built with one shared parameters dict: after {hist[0]} the text of {req} differs from its text with a fresh copy of the dict", {"kind": "shared-params", "history": [list(h) for h in hist]})
    part["samples"].append({"shared_parameters_pairs": len(task["pairs"])})
    return part


def w_registry(task):
    """user definitions (re-)registered in the global definition registry between requests: after a registration the
    generated text is that of the registered definition, whatever was requested before"""
    fa = setup_repo_import()
    part = new_part()
    for name in gen.USER_DEFS:
        want = in_child(lambda: {"t": [gen.sha(t) for t in gen.registry_history(fa, name, ["reg", "gen"])]})
        for events in (["gen", "reg", "gen"], ["gen", "gen", "reg", "gen"], ["reg", "gen", "gen"], ["gen", "reg", "gen", "gen"], ["reg", "gen", "reg", "gen"]):
            got = in_child(lambda: {"t": [gen.sha(t) for t in gen.registry_history(fa, name, events)]})
            part["evaluations"] += 1
            part["nontrivial"] += 1
            part["counters"]["registry_transitions"] = part["counters"].get("registry_transitions", 0) + len(events)
            if "error" in got or "error" in want:
                add_violation(part, "registry-history-fails", f"{name} {events}: {got} / {want}", {"kind": "registry", "name": name, "events": events})
                continue
            if got["t"][-1] != want["t"][-1]:
                add_violation(part, f"registry-history-dependent:{name}", f"{name}: after the events {events} the generated text differs from the text of [register, generate]", {"kind": "registry", "name": name, "events": events})
    part["samples"].append({"registry_histories": list(gen.USER_DEFS)})
    return part


def euler_circuit(n):
    """Eulerian circuit of the complete digraph with loops on n vertices: every ordered pair adjacent once."""
    adj = {v: list(range(n)) for v in range(n)}
    stack, circuit = [0], []
    while stack:
        v = stack[-1]
        if adj[v]:
            stack.append(adj[v].pop())
        else:
            circuit.append(stack.pop())
    return circuit[::-1]


def select_subset(fa, reqs, n, seed):
    """n requests, targets taken in turn (so every target is present), functions rotating with the seed, one
    signature per (target, function) before a second one is taken."""
    by = {}
    for r in reqs:
        by.setdefault(r[0], {}).setdefault(r[1], []).append(r)
    targets = sorted(by)
    out = []
    rnd = 0
    while len(out) < n and rnd < 200:
        progressed = False
        for t in targets:
            fns = sorted(by[t])
            f = fns[(rnd + seed) % len(fns)]
            lst = by[t][f]
            k = rnd // len(fns)
            if k < len(lst):
                r = lst[(k + seed) % len(lst)]
                if r not in out:
                    out.append(r)
                    progressed = True
            if len(out) >= n:
                break
        rnd += 1
        if not progressed and rnd > 64:
            break
    return out[:n]


def run(run):
    thorough = run.tier == "thorough"
    fa = setup_repo_import()
    shipped = gen.requests(fa)
    extra = gen.extra_requests(fa)
    reqs = shipped + extra
    run.counters["requests"] = len(reqs)
    run.counters["requests_shipped_tables"] = len(shipped)
    # pristine table
    nsh = 32
    parts = run.map(MOD, "w_table", [dict(reqs=[list(r) for r in reqs[i::nsh]]) for i in range(nsh)])
    table = {}
    for s in run.sets.pop("table", []):
        table.update(json.loads(s))
    assert len(table) == len(reqs), (len(table), len(reqs))
    R2 = shipped if thorough else select_subset(fa, shipped, 60, run.seed)
    # the small-graph family: synthetic definitions (all targets), the apmath->lax generator entries, the lax table
    SY = [r for r in extra if ":" in r[1]] + (([r for r in extra if ":" not in r[1]]) if thorough else select_subset(fa, [r for r in extra if ":" not in r[1]], 8, run.seed))
    run.counters["depth2_requests"] = len(R2)
    run.counters["depth2_requests_small_family"] = len(SY)
    pairs = [[list(p), list(r)] for p in R2 for r in R2]
    pairs += [[list(p), list(r)] for p in SY for r in SY]
    bridge = select_subset(fa, shipped, 40, run.seed) if thorough else [next(r for r in R2 if r[0] == t) for t in gen.TARGETS]
    pairs += [[list(p), list(r)] for p in bridge for r in SY] + [[list(p), list(r)] for p in SY for r in bridge]
    nsh = 256
    tasks = [dict(hists=pairs[i::nsh], table=table) for i in range(nsh)]
    run.map(MOD, "w_histories", tasks)
    trans = len(pairs) * 2
    if thorough:
        R3 = select_subset(fa, shipped, 20, run.seed) + [r for r in SY if r[1] in ("syn:syn_blend", "syn:syn_muladd")][:6]
        triples = [[list(a), list(b), list(c)] for a in R3 for b in R3 for c in R3]
        run.map(MOD, "w_histories", [dict(hists=triples[i::nsh], table=table) for i in range(nsh)])
        trans += len(triples) * 3
    # walks: Eulerian circuit over the subset (quick) / all requests (thorough), cut into 16 walkers that each
    # start pristine and run a long history; one more circuit over the small-graph family
    Rw = shipped if thorough else R2
    walks = []
    nw = 16
    total_walk = 0
    for fam, nwf in ((Rw, 12), (SY, 4)):
        circ = euler_circuit(len(fam))
        seq = [list(fam[v]) for v in circ]
        total_walk += len(seq)
        L = (len(seq) + nwf - 1) // nwf
        walks += [seq[max(0, i * L - 1):(i + 1) * L] for i in range(nwf)]
    run.map(MOD, "w_walk", [dict(seq=w, table=table) for w in walks if w])
    run.counters["walk_generations"] = total_walk
    trans += total_walk
    seq = list(range(total_walk))
    run.map(MOD, "w_reuse", [dict(target=t, lengths=[2, 3] if not thorough else [2, 3, 4]) for t in gen.REUSE_TARGETS])
    trans += int(run.counters.pop("reuse_transitions", 0))
    # one shared user parameters dict: all ordered pairs of the complex (and, thorough, all) requests of numpy and python
    sp = [r for r in shipped if r[0] in ("numpy", "python") and ("complex" in str(getattr(fa.targets, r[0]).trace_arguments[r[1]][r[2]]) or thorough)]
    if not thorough:
        sp = [r for r in sp if "64" in str(getattr(fa.targets, r[0]).trace_arguments[r[1]][r[2]]) or r[0] == "python"]
    sp_pairs = [[list(a), list(b)] for a in sp for b in sp]
    run.counters["shared_parameters_requests"] = len(sp)
    run.map(MOD, "w_shared_params", [dict(pairs=sp_pairs[i::64]) for i in range(64)])
    trans += int(run.counters.pop("shared_params_transitions", 0))
    run.map(MOD, "w_registry", [dict()])
    trans += int(run.counters.pop("registry_transitions", 0))
    seeds = [0, 1, 2, 12345] if not thorough else list(range(0, 31)) + [12345]
    seeds = seeds[:-1] + [(run.seed * 7919 + 13) % 4294967295]
    run.map(MOD, "w_seed", [dict(seed=s, reqs=[list(r) for r in reqs], table=table) for s in seeds])
    trans += 2 * len(reqs) * len(seeds)
    gst = run.sets.pop("gstates", set())
    run.coverage_extra["states"] = max(1, len(gst))
    run.coverage_extra["transitions"] = int(trans)
    run.coverage_extra["traces_validated_against_impl"] = int(run.evaluations)
    run.coverage_extra["max_depth"] = int(max(len(w) for w in walks))
    run.coverage_extra["hash_seeds"] = seeds
    run.rule = (
        f"{len(reqs)} requests ({len(shipped)} from the five trace_arguments tables of results/update.py, {len(extra)} more: lax table, the six tools/generate_apmath_lax.py entries, four synthetic definitions x six targets); pristine table from forked children of an import-only zygote; all ordered pairs over {len(R2)} requests "
        + ("(all table requests); all triples over 26; " if thorough else "(subset covering every (target, function)); ") + f"all ordered pairs over the {len(SY)} small-graph requests and between them and {len(bridge)} table requests; "
        + f"{nw} long walks covering an Eulerian circuit of the complete request digraph ({len(seq)} generations); full catalogue under {len(seeds)} hash seeds in both orders; "
        f"all sequences of length 2..{4 if thorough else 3} of {len(gen.REUSE_FUNCS)} same-signature definitions on ONE Context per target (text equal to the fresh-Context text up to renaming of generated names); "
        "all ordered pairs of complex numpy/python requests on Contexts that share one user parameters dict (text equal to the text with a fresh copy); user definitions re-registered between requests; "
        "states = distinct values of (tmp-symbol counter, definition registry, warn-once cache size, vfunc cache size) observed after a history"
    )
    run.assumptions = ["requests that raise NotImplementedError count as deterministic text (type and message)"]


def replay(case):
    fa = setup_repo_import()
    part = new_part()
    if case.get("kind") == "seed":
        return [("seed: re-run the tier", str(case))]
    if case.get("kind") == "shared-params":
        p2 = w_shared_params(dict(pairs=[case["history"]]))
        return [(v["sig"], v["msg"]) for v in p2["violations"]]
    if case.get("kind") == "registry":
        p2 = w_registry(dict())
        return [(v["sig"], v["msg"]) for v in p2["violations"] if v["case"].get("name") == case["name"]]
    if case.get("kind") == "reuse":
        texts = gen.reuse_generate(fa, case["target"], case["seq"])
        fresh = gen.reuse_generate(fa, case["target"], case["seq"][-1:])
        if gen.alpha(texts[-1]) != gen.alpha(fresh[0]):
            return [(f"context-reuse-dependent:{case['target']}:{gen.REUSE_FUNCS[case['seq'][-1]].__name__}", texts[-1][:600])]
        return []
    hist = [tuple(h) for h in case["history"]]
    alone = in_child(lambda: {"s": gen.sha(gen.generate(fa, hist[-1]))})
    seq = in_child(lambda: {"s": [gen.sha(gen.generate(fa, q)) for q in hist][-1]})
    if alone.get("s") != seq.get("s"):
        req = hist[-1]
        add_violation(part, f"history-dependent:{req[0]}:{req[1]}", f"history {hist}: {seq} vs alone {alone}", case)
    return [(v["sig"], v["msg"]) for v in part["violations"]]
