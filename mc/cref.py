"""Multiprecision reference for the complex elementary functions (part of E3).

`cref(fname, x, y, ft)`  ->  list of acceptable (re, im) pairs (NumPy scalars of the component type ft)
for the input z = x + i y with finite components, obtained with mpmath at two working precisions
(Ziv: the precision is doubled until two successive roundings agree).  On a branch cut whose side
is selected by the sign of a zero component the values of both sides are returned.
Independent of functional_algorithms.utils (no mpmath_array_api, no mpf2float).
"""

from __future__ import annotations

from fractions import Fraction as F

import numpy as np

from mc.oracle import FMT, rn


def _q(m):
    s, man, e, _ = m._mpf_
    if man == 0 and e != 0:
        return None  # inf / nan
    q = F(int(man)) * F(2) ** int(e)
    return -q if s else q


def _round(v, dtname):
    import mpmath

    if mpmath.isnan(v):
        return FMT[dtname]["np"](np.nan)
    if mpmath.isinf(v):
        return FMT[dtname]["np"](np.inf if v > 0 else -np.inf)
    return rn(_q(v), dtname)


def _exp2(x):
    """exponent of a non-zero float"""
    return int(np.frexp(np.float64(abs(float(x))) if float(x) != 0 else np.float64(1))[1])


def cut_kind(fname, x, y):
    """'real' / 'imag' if z lies on a branch cut of fname selected by the sign of a zero component."""
    if y == 0:
        if fname in ("asin", "acos") and abs(x) > 1:
            return "real"
        if fname == "atanh" and abs(x) > 1:
            return "real"
        if fname == "acosh" and x < 1:
            return "real"
        if fname in ("log", "log2", "log10", "sqrt") and x < 0:
            return "real"
        if fname == "log1p" and x < -1:
            return "real"
    if x == 0:
        if fname == "asinh" and abs(y) > 1:
            return "imag"
        if fname == "atan" and abs(y) > 1:
            return "imag"
    return None


def _eval(fname, zx, zy, prec):
    import mpmath

    mp = mpmath.mp
    with mpmath.workprec(prec):
        z = mpmath.mpc(mpmath.mpf(float(zx)), mpmath.mpf(float(zy)))
        if fname == "absolute":
            return mpmath.sqrt(z.real * z.real + z.imag * z.imag), mpmath.mpf(0)
        if fname == "square":
            return z.real * z.real - z.imag * z.imag, 2 * z.real * z.imag
        if fname == "exp" and abs(float(zx)) > 2.0 ** 16:
            # |e^x| is far outside every format: only the signs of cos y / sin y matter
            c, sn = mpmath.cos(z.imag), mpmath.sin(z.imag)
            if float(zx) > 0:
                big = mpmath.inf
                return (big if c > 0 else -big) if c != 0 else mpmath.mpf(0), (big if sn > 0 else -big) if sn != 0 else mpmath.mpf(0)
            return mpmath.mpf(0), mpmath.mpf(0)
        if fname == "log2":
            w = mpmath.log(z) / mpmath.log(2)
        elif fname == "log10":
            w = mpmath.log(z) / mpmath.log(10)
        elif fname == "log1p":
            w = mpmath.log(1 + z)  # exact 1 + z: the caller chooses prec >= exponent span
        else:
            w = getattr(mpmath, fname)(z)
        w = mpmath.mpc(w)
        return +w.real, +w.imag


def cref(fname, x, y, dtname):
    p = FMT[dtname]["p"]
    span = 0
    for c in (x, y):
        if float(c) != 0:
            span = max(span, abs(_exp2(c)))
    prec = 4 * p + 64
    if fname in ("log1p", "square", "absolute", "log", "log2", "log10", "atanh", "atan", "asin", "acos", "asinh", "acosh"):
        prec = max(prec, 2 * span + 2 * p + 64)  # cancellation in 1+z, x^2-y^2, |z|^2-1 must be exact
    prev = None
    for _ in range(6):
        try:
            re, im = _eval(fname, x, y, prec)
        except Exception:
            return None
        cur = (_round(re, dtname), _round(im, dtname))
        if prev is not None and all((a == b) or (np.isnan(a) and np.isnan(b)) for a, b in zip(cur, prev)):
            break
        prev = cur
        prec *= 2
    else:
        return None
    cands = [cur]
    ck = cut_kind(fname, x, y)
    if ck == "real":
        cands.append((cur[0], -cur[1]))  # the other side: conj
    elif ck == "imag":
        cands.append((-cur[0], cur[1]))  # the other side: -conj
    return cands
