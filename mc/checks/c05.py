"""C05 — executable targets compute exactly the traced graph (Python, NumPy, C++).

Programs: G1 every shipped request of the three targets; G2 the kind-pair lattice over the kinds
each target declares (inner node at each operand position: precedence / parenthesisation /
template bugs only show under nesting); G3 every named and numeric constant class in
left/right/branch position; G4 sharing shapes (diamonds, forced references, colliding reference
names).  x debug in {0, 1} for NumPy.
Oracle: an independent evaluation of the same graph with the target's own primitive library:
  python: an eager scalar interpreter over `math` (compared where the eager reference raises
          nothing -- the emitted code evaluates `select` lazily and may only raise less);
  numpy:  mc.interp (vectorised NumPy in the declared dtype), bit for bit;
  cpp:    the emitted functions of a batch compiled into one translation unit with g++
          (-O1 -ffp-contract=off), loaded with ctypes; reference = the scalar interpreter over a
          libm shim compiled with the same flags (float -> f-suffixed functions), bit for bit.
Emitted source must load (compile()/exec, g++).  Single assignment: the emitted function is
parsed (ast / mc.parseback): every variable is assigned exactly once, every use follows its
definition, and distinct graph nodes never share a variable.
"""

from __future__ import annotations

import ast
import ctypes
import itertools
import math
import os
import shutil
import struct
import subprocess
import tempfile

import numpy as np

from mc import gen, interp, parseback
from mc.checks.c08 import build_recipe, skeleton, twin_constant_programs
from mc.harness import add_violation, bump, new_part, quiet, setup_repo_import

PROPERTY = "C05"
LEVEL = "exploration"
MOD = "mc.checks.c05"

PY_UN = {"absolute": abs, "negative": lambda a: -a, "positive": lambda a: +a, "acos": math.acos, "acosh": math.acosh, "asinh": math.asinh, "atan": math.atan, "atanh": math.atanh,
         "cos": math.cos, "cosh": math.cosh, "sin": math.sin, "sinh": math.sinh, "tan": math.tan, "tanh": math.tanh, "exp": math.exp, "expm1": math.expm1, "log": math.log,
         "log1p": math.log1p, "log2": math.log2, "log10": math.log10, "ceil": math.ceil, "floor": math.floor, "truncate": math.trunc, "sqrt": math.sqrt, "is_finite": math.isfinite,
         "sign": lambda a: 0 if a == 0 else math.copysign(1, a), "conjugate": lambda a: a.conjugate(), "real": lambda a: a.real, "imag": lambda a: a.imag, "logical_not": lambda a: not a}
PY_BIN = {"add": lambda a, b: a + b, "subtract": lambda a, b: a - b, "multiply": lambda a, b: a * b, "divide": lambda a, b: a / b, "remainder": lambda a, b: a % b,
          "floor_divide": lambda a, b: a // b, "pow": lambda a, b: a ** b, "logical_and": lambda a, b: a and b, "logical_or": lambda a, b: a or b, "maximum": lambda a, b: max(a, b),
          "minimum": lambda a, b: min(a, b), "atan2": math.atan2, "copysign": math.copysign, "complex": complex, "lt": lambda a, b: a < b, "le": lambda a, b: a <= b,
          "gt": lambda a, b: a > b, "ge": lambda a, b: a >= b, "eq": lambda a, b: a == b, "ne": lambda a, b: a != b}
PY_NAMED = {"smallest": 2.2250738585072014e-308, "largest": 1.7976931348623157e308, "posinf": math.inf, "neginf": -math.inf, "pi": math.pi}


NAMED_WITHOUT_TEMPLATE = ("eps", "smallest_subnormal", "nan", "undefined")


class Skip(Exception):
    pass


def viol(part, sig, msg, case):
    """add_violation with the scenario (e.g. a re-used Context) as signature prefix."""
    sc = case.get("scenario") if isinstance(case, dict) else None
    add_violation(part, f"{sc}:{sig}" if sc else sig, msg, case)


def pyeval(fa, e, env, memo):
    """eager reference evaluation with Python scalars."""
    k = id(e)
    if k in memo:
        return memo[k]
    kind = e.kind
    if kind == "symbol":
        r = env[str(e.operands[0])]
    elif kind == "constant":
        v = e.operands[0]
        if isinstance(v, str):
            if v not in PY_NAMED:
                raise Skip(f"named constant {v}")
            r = PY_NAMED[v]
        elif hasattr(v, "kind"):
            raise Skip("alt constant")
        else:
            r = v
    elif kind == "apply":
        r = pyeval(fa, e.operands[-1], env, memo)
    elif kind == "select":
        c = pyeval(fa, e.operands[0], env, memo)
        a = pyeval(fa, e.operands[1], env, memo)
        b = pyeval(fa, e.operands[2], env, memo)
        r = a if c else b
    else:
        ops = [pyeval(fa, o, env, memo) for o in e.operands]
        if kind in PY_UN and len(ops) == 1:
            r = PY_UN[kind](ops[0])
        elif kind in PY_BIN and len(ops) == 2:
            r = PY_BIN[kind](ops[0], ops[1])
        else:
            raise Skip(f"kind {kind}")
    memo[k] = r
    return r


def bits_eq(a, b):
    if isinstance(a, bool) or isinstance(b, bool) or isinstance(a, np.bool_) or isinstance(b, np.bool_):
        return bool(a) == bool(b) and isinstance(a, (bool, np.bool_)) == isinstance(b, (bool, np.bool_))
    if isinstance(a, complex) or isinstance(b, complex):
        if not (isinstance(a, complex) and isinstance(b, complex)):
            return False
        return bits_eq(a.real, b.real) and bits_eq(a.imag, b.imag)
    if isinstance(a, float) and isinstance(b, float):
        return struct.pack("<d", a) == struct.pack("<d", b) or (a != a and b != b)
    return type(a) is type(b) and a == b


# ------------------------------------------------------------------ single assignment (python / numpy text)


def ssa_python(src):
    """every variable assigned exactly once and before use, inside the emitted function."""
    tree = ast.parse(src)
    fn = [n for n in ast.walk(tree) if isinstance(n, ast.FunctionDef)][-1]
    defined = {a.arg for a in fn.args.args}
    argnames = set(defined)
    problems = []

    def names_used(node):
        return [n.id for n in ast.walk(node) if isinstance(n, ast.Name) and isinstance(n.ctx, ast.Load)]

    def visit(stmts):
        for st in stmts:
            if isinstance(st, (ast.Assign, ast.AnnAssign)):
                value = st.value
                targets = st.targets if isinstance(st, ast.Assign) else [st.target]
                for u in names_used(value):
                    if u not in defined and u not in ("math", "sys", "numpy", "abs", "max", "min", "complex", "make_complex", "warnings", "finfo_float32", "finfo_float64", "print", "isinstance", "list", "len", "float", "int", "bool"):
                        problems.append(("use-before-definition", u))
                for tg in targets:
                    if isinstance(tg, ast.Name):
                        recast = tg.id in argnames and isinstance(value, ast.Call) and len(value.args) == 1 and isinstance(value.args[0], ast.Name) and value.args[0].id == tg.id
                        if tg.id in defined and tg.id != "result" and not recast:
                            problems.append(("assigned-twice", tg.id))
                        defined.add(tg.id)
            elif isinstance(st, ast.With):
                visit(st.body)
            elif isinstance(st, ast.Return) and st.value is not None:
                for u in names_used(st.value):
                    if u not in defined and u not in ("math", "sys", "numpy", "abs", "max", "min", "complex", "make_complex"):
                        problems.append(("use-before-definition", u))

    visit(fn.body)
    return problems


# ------------------------------------------------------------------ programs

PY_KINDS_UN = ["absolute", "negative", "positive", "sqrt", "exp", "log", "log1p", "sin", "cos", "tan", "sign", "floor", "ceil", "truncate", "atan", "asinh", "expm1", "log2", "log10", "tanh",
               "acos", "acosh", "asin", "atanh", "cosh", "sinh", "exp2", "square"]
PY_KINDS_BIN = ["add", "subtract", "multiply", "divide", "maximum", "minimum", "atan2", "copysign", "pow", "remainder", "hypot", "nextafter", "floor_divide"]
CMP = ["lt", "le", "gt", "ge", "eq", "ne"]
CONSTS = [("c", 0), ("c", 1), ("c", 0.5), ("c", -0.0), ("c", -2.5), ("c", 2), ("c", float("inf")), ("c", -float("inf")), ("n", "largest"), ("n", "smallest"), ("n", "posinf"), ("n", "neginf"), ("n", "pi"), ("n", "eps")]


def named_reference_programs():
    """explicitly named references that collide: a helper h(a, b) = t*t with t = (a*b + a).reference("t") used 1..4 times on
    different operands, at top level / inside one ctx.call scope / each use in its own ctx.call scope, with and without
    a top-level expression that also asks for the name "t", and with a second colliding name."""
    x, y = ("x",), ("y",)
    operands = [(x, y), (y, x), (("add", x, y), x), (("subtract", x, y), y)]

    def h(a, b, name="t"):
        t = ("ref", name, ("add", ("multiply", a, b), a))
        return ("multiply", t, t)

    out = []
    for n in (1, 2, 3, 4):
        for wrap in ("none", "one-scope", "scope-per-use", "nested-scope"):
            for top in (False, True):
                for second in (False, True):
                    if second and n < 3:
                        continue
                    uses = [h(a, b, "u" if (second and i % 2) else "t") for i, (a, b) in enumerate(operands[:n])]
                    if wrap == "scope-per-use":
                        uses = [("call", "helper", u) for u in uses]
                    body = uses[0]
                    for u in uses[1:]:
                        body = ("add", body, u)
                    if wrap == "one-scope":
                        body = ("call", "outer", body)
                    if wrap == "nested-scope":
                        body = ("call", "outer", ("call", "inner", body))
                    if top:
                        tt = ("ref", "t", ("add", x, y))
                        body = ("multiply", body, ("multiply", tt, tt))
                    out.append(body)
    return out


def lattice_programs():
    x, y = ("x",), ("y",)
    sel = ("select", ("lt", x, y), x, y)
    inner = [(k, x) for k in ("absolute", "negative", "sqrt", "sign", "exp")] + [(k, x, y) for k in ("add", "subtract", "multiply", "divide", "maximum", "atan2")] + [sel, ("lt", x, y)]
    progs = [(k, x) for k in PY_KINDS_UN] + [(k, x, y) for k in PY_KINDS_BIN + CMP]
    for k in PY_KINDS_UN:
        for i in inner:
            if i[0] != "lt":
                progs.append((k, i))
    for k in PY_KINDS_BIN + CMP:
        for i in inner:
            if i[0] != "lt":
                progs.append((k, i, y))
                progs.append((k, x, i))
    lt = ("lt", x, y)
    for i in inner:
        if i[0] != "lt":
            progs += [("select", lt, i, y), ("select", lt, x, i), ("select", ("lt", i, y), x, y)]
    gt_, ne_ = ("gt", x, ("c", 0)), ("ne", x, y)
    for cnd in (("logical_not", ("logical_and", lt, gt_)), ("logical_not", ("logical_or", lt, gt_)), ("logical_and", ("logical_not", lt), gt_), ("logical_or", ("logical_not", ("logical_and", lt, ne_)), gt_),
                ("logical_not", ("logical_not", lt)), ("logical_not", ("select", lt, gt_, ne_)), ("logical_and", ("logical_or", lt, gt_), ("logical_not", ("logical_or", ne_, gt_)))):
        progs += [cnd, ("select", cnd, x, y)]
    progs += [("logical_not", lt), ("logical_and", lt, ("gt", x, y)), ("logical_or", lt, ("eq", x, y)), ("select", ("logical_and", lt, ("ne", x, y)), x, y), ("select", ("logical_not", lt), x, y),
              ("select", ("logical_or", ("select", lt, lt, ("gt", x, y)), lt), x, y)]
    for c in CONSTS:
        progs += [("add", x, c), ("subtract", c, x), ("multiply", ("add", x, c), c), ("select", ("lt", x, c), c, y), ("lt", c, x), ("maximum", x, c), ("divide", c, ("add", x, y))]
    # sharing shapes
    s = ("add", x, y)
    d = ("multiply", s, s)
    progs += [d, ("add", d, ("subtract", d, s)), ("select", ("lt", s, d), ("add", s, d), ("multiply", d, ("negative", s))), ("maximum", ("absolute", s), ("absolute", ("negative", s)))]
    # precision changes (NumPy target only): result type of upcast, fused multiply-add through the wider type
    ux, uy = ("upcast", x), ("upcast", y)
    progs += [ux, ("downcast", ux), ("downcast", ("add", ("multiply", ux, uy), ux)), ("downcast", ("multiply", ("add", ux, uy), ("subtract", ux, uy))), ("downcast", ("sqrt", ("add", ("multiply", ux, ux), ("multiply", uy, uy)))),
              ("add", ("downcast", ("multiply", ux, uy)), x), ("upcast", ("add", x, y)), ("is_finite", x), ("select", ("is_finite", s), s, x), ("round", x)]
    # complex construction / projection on real arguments
    cz = ("complex", x, y)
    progs += [("real", cz), ("imag", cz), ("real", ("conjugate", cz)), ("imag", ("conjugate", cz)), ("absolute", cz), ("add", ("real", cz), ("imag", ("negative", cz))),
              ("imag", ("multiply", cz, cz)), ("real", ("add", cz, ("conjugate", cz)))]
    progs += named_reference_programs()
    progs += twin_constant_programs()
    seen, out = set(), []
    for r in progs:
        if r not in seen:
            seen.add(r)
            out.append(r)
    return out


FVALS = [0.0, -0.0, 0.5, 1.0, -1.0, 2.0, -2.5, 1e-300, 1e300, 3.5, 0.25, math.inf, -math.inf, 1e-5, 123.456, 1.0000000009313226]


def value_grid(nargs, is_complex):
    if is_complex:
        zs = [complex(a, b) for a in (0.0, 0.5, -2.0, 1e-30, 3.0, math.inf) for b in (0.0, -0.0, 1.0, -0.75, 1e20)]
        return [(z,) for z in zs] if nargs == 1 else [(z, w) for z in zs[::3] for w in zs[::4]]
    if nargs == 1:
        return [(a,) for a in FVALS]
    return [(a, b) for a in FVALS for b in FVALS]


# ------------------------------------------------------------------ python target


def judge_python(fa, part, graph, label, case):
    part["evaluations"] += 1
    with quiet():
        try:
            src = graph.tostring(fa.targets.python)
        except NotImplementedError:
            bump(part, "python_not_accepted")
            return
        except Exception as e:
            if type(e).__name__ == "InvalidInput":  # the package's own formatter (black) cannot parse the emitted text
                viol(part, f"python:does-not-load:emitted-text-is-not-valid-python:{offending_kind(graph)}", f"{label}: the emitted Python text is not parsable: {str(e)[:300]}", case)
                return
            bump(part, "python_not_accepted_" + type(e).__name__)
            return
    name = graph.props.get("name", str(graph.operands[0].operands[0]))
    try:
        code = compile(src, "<emitted>", "exec")
        ns = {"math": math, "sys": __import__("sys")}
        exec(code, ns)
        fn = ns[name]
    except SyntaxError as e:
        viol(part, f"python:does-not-load:SyntaxError:{offending_kind(graph)}", f"{label}: emitted Python does not compile: {e}\n{src[:600]}", case)
        return
    except Exception as e:
        viol(part, f"python:does-not-load:{type(e).__name__}", f"{label}: {type(e).__name__}: {e}\n{src[:600]}", case)
        return
    for kind, nm in ssa_python(src):
        if kind == "use-before-definition" and nm in NAMED_WITHOUT_TEMPLATE:
            viol(part, f"python:named-constant-without-template:{nm}", f"{label}: named constant `{nm}` is emitted as a bare identifier\n{src[:600]}", case)
            return
        viol(part, f"python:single-assignment:{kind}", f"{label}: variable `{nm}`: {kind}\n{src[:600]}", case)
    args = list(graph.operands[1:-1])
    cx = "complex" in str(args[0].operands[1])
    ncmp = 0
    for vals in value_grid(len(args), cx):
        env = {str(a.operands[0]): v for a, v in zip(args, vals)}
        try:
            want = pyeval(fa, graph, env, {})
        except Skip:
            bump(part, "python_reference_skipped")
            return
        except Exception:
            continue  # the eager reference raises: nothing promised
        try:
            got = fn(*vals)
        except NameError as e:
            viol(part, "python:NameError-at-run-time", f"{label} at {vals}: {e}\n{src[:600]}", case)
            return
        except Exception as e:
            viol(part, f"python:raises-where-reference-does-not:{type(e).__name__}", f"{label} at {vals}: emitted code raised {type(e).__name__}: {e}; reference value {want!r}\n{src[:600]}", case)
            return
        ncmp += 1
        if not bits_eq(got, want):
            viol(part, f"python:value-differs:{offending_kind(graph)}", f"{label} at {vals}: emitted code returns {got!r}, direct evaluation of the graph {want!r}\n{src[:600]}", case)
            return
    if ncmp:
        part["nontrivial"] += 1


def vbytes(a):
    """value bytes of a scalar; x87 extended values carry 6 padding bytes per component that are not part of the value."""
    a = np.asarray(a)
    b = a.tobytes()
    if a.dtype in (np.dtype(np.longdouble), np.dtype(np.clongdouble)) and np.finfo(np.longdouble).nmant == 63 and np.dtype(np.longdouble).itemsize == 16:
        return b"".join(b[i:i + 10] for i in range(0, len(b), 16))
    return b


def offending_kind(graph):
    """a coarse label: the set of 'unusual' kinds in the graph (for grouping template bugs)."""
    kinds = set()
    stack = [graph.operands[-1]]
    seen = set()
    while stack:
        e = stack.pop()
        if id(e) in seen:
            continue
        seen.add(id(e))
        kinds.add(e.kind)
        for o in e.operands:
            if isinstance(o, type(graph)):
                stack.append(o)
    odd = sorted(kinds & {"remainder", "sign", "floor", "pow", "copysign", "truncate", "floor_divide", "ceil"})
    return "+".join(odd) if odd else "general"


# ------------------------------------------------------------------ numpy target


def judge_numpy(fa, part, graph, label, case, dts):
    if "pow" in offending_kind(graph):
        bump(part, "numpy_skipped_pow")  # NumPy's scalar and array power kernels differ in the last bit: no reference
        return
    for debug in (0, 1):
        part["evaluations"] += 1
        with quiet():
            try:
                src = graph.tostring(fa.targets.numpy, debug=debug)
            except NotImplementedError:
                bump(part, "numpy_not_accepted")
                return
            except Exception as e:
                if type(e).__name__ == "InvalidInput":
                    viol(part, f"numpy:does-not-load:emitted-text-is-not-valid-python:{offending_kind(graph)}", f"{label}: the emitted NumPy text is not parsable: {str(e)[:300]}", case)
                    return
                bump(part, "numpy_not_accepted_" + type(e).__name__)
                return
        try:
            code = compile(src, "<emitted>", "exec")
            import sys as _sys
            import warnings as _warnings

            ns = dict(sys=_sys, numpy=np, make_complex=fa.utils.make_complex, finfo_float32=np.finfo(np.float32), finfo_float64=np.finfo(np.float64), warnings=_warnings)
            with quiet():
                exec(code, ns)
            fn = ns[graph.props.get("name", str(graph.operands[0].operands[0]))]
        except SyntaxError as e:
            viol(part, f"numpy:does-not-load:SyntaxError:{offending_kind(graph)}", f"{label}: emitted NumPy code does not compile: {e}\n{src[:600]}", case)
            return
        except Exception as e:
            viol(part, f"numpy:does-not-load:{type(e).__name__}", f"{label}: {type(e).__name__}: {e}", case)
            return
        if debug == 0:
            for kind, nm in ssa_python(src):
                viol(part, f"numpy:single-assignment:{kind}", f"{label}: variable `{nm}`: {kind}\n{src[:600]}", case)
        args = list(graph.operands[1:-1])
        cx = np.dtype(dts[0]).kind == "c"
        grid = value_grid(len(args), cx)
        cols = [np.array([v[i] for v in grid], dtype=dts[i]) for i in range(len(args))]
        try:
            it = interp.Interp(fa, graph)
            want = it.run(*cols)
        except interp.Unsupported:
            bump(part, "numpy_reference_unsupported")
            return
        except Exception:
            bump(part, "numpy_reference_failed")
            return
        want = np.asarray(want)
        n = 0
        for j in range(len(grid)):
            try:
                with np.errstate(all="ignore"):
                    with quiet():
                        got = fn(*[c[j] for c in cols])
            except AssertionError:
                bump(part, "numpy_debug_assertion")  # C08's subject
                return
            except Exception as e:
                viol(part, f"numpy:raises:{type(e).__name__}:{offending_kind(graph)}", f"{label} at {[c[j] for c in cols]}: {type(e).__name__}: {e}\n{src[:500]}", case)
                return
            g = np.asarray(got)
            w = np.broadcast_to(want, (len(grid),) + want.shape[1:])[j] if want.shape else want
            w = np.asarray(w)
            same = g.dtype == w.dtype and (vbytes(g) == vbytes(w) or (g.dtype.kind in "fc" and np.array_equal(np.isnan(g.real), np.isnan(w.real)) and (np.isnan(g.real) or vbytes(g.real) == vbytes(w.real)) and (g.dtype.kind != "c" or (np.isnan(g.imag) and np.isnan(w.imag)) or vbytes(g.imag) == vbytes(w.imag))))
            if not same:
                viol(part, f"numpy:value-differs:{offending_kind(graph)}", f"{label} (debug={debug}) at {[c[j] for c in cols]}: emitted code returns {got!r} ({g.dtype}), interpreter {w!r} ({w.dtype})", case)
                return
            n += 1
        if n:
            part["nontrivial"] += 1


# ------------------------------------------------------------------ cpp target

SHIM_BODY = r"""
extern "C" {
#define U(n) float s_##n##f(float a){return std::n(a);} double s_##n##d(double a){return std::n(a);}
U(abs) U(sqrt) U(exp) U(log) U(log1p) U(sin) U(cos) U(tan) U(atan) U(asinh) U(acosh) U(asin) U(acos) U(atanh) U(expm1) U(log2) U(log10) U(tanh) U(sinh) U(cosh) U(floor) U(ceil) U(round)
#define B(n) float s_##n##f(float a,float b){return std::n(a,b);} double s_##n##d(double a,double b){return std::n(a,b);}
B(atan2) B(copysign)
int s_isfinitef(float a){return std::isfinite(a);} int s_isfinited(double a){return std::isfinite(a);}
}
"""


def build_so(srcs, workdir, name):
    path = os.path.join(workdir, name + ".cpp")
    with open(path, "w") as f:
        f.write(srcs)
    so = os.path.join(workdir, name + ".so")
    p = subprocess.run(["g++", "-O1", "-ffp-contract=off", "-fno-fast-math", "-shared", "-fPIC", "-w", "-o", so, path], capture_output=True, text=True)
    return (so if p.returncode == 0 else None), p.stderr


LIBM_UN = {"acos": "acos", "acosh": "acosh", "asin": "asin", "asinh": "asinh", "atan": "atan", "atanh": "atanh", "cos": "cos", "cosh": "cosh", "sin": "sin", "sinh": "sinh",
           "tan": "tan", "tanh": "tanh", "exp": "exp", "expm1": "expm1", "log": "log", "log1p": "log1p", "log2": "log2", "log10": "log10", "ceil": "ceil", "floor": "floor",
           "round": "round", "sqrt": "sqrt", "absolute": "abs"}


class LibmInterp(interp.Interp):
    """mc.interp with every C++-library primitive taken from the very libm/libstdc++ the emitted code links against
    (through the extern "C" shim compiled into the same shared object), evaluated in the declared type:
    `direct evaluation of the graph using the same primitive library`."""

    def __init__(self, fa, graph, lib, t):
        super().__init__(fa, graph)
        self.lib, self.t = lib, t
        self.sfx = "f" if t is np.float32 else "d"
        self.ct = ctypes.c_float if t is np.float32 else ctypes.c_double
        self._fn = {}

    def cfun(self, name, nargs):
        f = self._fn.get(name)
        if f is None:
            f = getattr(self.lib, f"s_{name}{self.sfx}")
            f.restype = self.ct
            f.argtypes = [self.ct] * nargs
            self._fn[name] = f
        return f

    def _real(self, v):
        a = np.asarray(v)
        if a.dtype.type is not self.t:
            raise interp.Unsupported(f"operand of type {a.dtype} in a {self.t.__name__} graph")
        return a

    def _eval(self, e, env, flags):
        k = e.kind
        if k in LIBM_UN or k in ("atan2", "maximum", "minimum", "sign"):
            ops = [env[id(o)] for o in e.operands]
            if any(isinstance(o, interp.Cx) for o in ops):
                raise interp.Unsupported("complex operand")
            ops = [self._real(o) for o in ops]
            if k in LIBM_UN:
                f = self.cfun(LIBM_UN[k], 1)
                a = ops[0]
                return np.array([f(float(v)) for v in a.ravel()], dtype=self.t).reshape(a.shape)
            a, b = (np.broadcast_arrays(*ops) if len(ops) == 2 else (ops[0], None))
            if k == "atan2":
                f = self.cfun("atan2", 2)
                return np.array([f(float(u), float(v)) for u, v in zip(a.ravel(), b.ravel())], dtype=self.t).reshape(a.shape)
            if k == "maximum":  # std::max(a, b) is (a < b) ? b : a
                return np.where(a < b, b, a)
            if k == "minimum":  # std::min(a, b) is (b < a) ? b : a
                return np.where(b < a, b, a)
            if k == "sign":  # value only; rows with a zero operand are not judged (see judge_cpp_batch)
                return np.where(a == 0, a, np.copysign(self.t(1), a))
        return super()._eval(e, env, flags)


def judge_cpp_batch(fa, part, items, workdir, tag):
    """items: list of (graph, label, case, dts).  One translation unit."""
    hdr = fa.targets.cpp.source_file_header
    srcs, ok_items = [hdr], []
    for idx, (graph, label, case, dts) in enumerate(items):
        part["evaluations"] += 1
        with quiet():
            try:
                graph.props.update(name=f"fn_{idx}")
                src = graph.tostring(fa.targets.cpp)
            except NotImplementedError:
                bump(part, "cpp_not_accepted")
                continue
            except Exception as e:
                bump(part, "cpp_not_accepted_" + type(e).__name__)
                continue
        try:
            f = parseback.parse_c_function(src)
            seen = {n for t_, n in f["args"]}
            for t_, v, e in f["stmts"]:
                if v in seen:
                    viol(part, "cpp:single-assignment:assigned-twice", f"{label}: `{v}` assigned twice\n{src[:500]}", case)
                seen.add(v)
        except ValueError as e:
            viol(part, "cpp:unparsable", f"{label}: {e}\n{src[:500]}", case)
        # compile each function on its own first (cheap syntax check of the batch comes later)
        ok_items.append((idx, graph, label, case, dts, src))
        srcs.append(src)
        if not any(np.dtype(d).kind == "c" for d in dts):
            ct_ = "float" if np.dtype(dts[0]).type is np.float32 else "double"
            body_bool = graph.operands[-1].kind in ("lt", "le", "gt", "ge", "eq", "ne", "logical_and", "logical_or", "logical_not", "is_finite")
            sig_ = ", ".join(f"{ct_} a{i}" for i in range(len(dts)))
            call_ = ", ".join(f"a{i}" for i in range(len(dts)))
            srcs.append(f'extern "C" {"bool" if body_bool else ct_} w_{idx}({sig_}) {{ return fn_{idx}({call_}); }}')
    if not ok_items:
        return
    so, err = build_so("\n\n".join(srcs) + "\n" + SHIM_BODY, workdir, f"batch_{tag}")
    if so is None:
        # find the culprits one by one
        for idx, graph, label, case, dts, src in ok_items:
            so1, err1 = build_so(hdr + "\n" + src, workdir, f"one_{tag}_{idx}")
            if so1 is None:
                first = [l for l in err1.splitlines() if "error" in l][:2]
                if "floot" in err1:
                    cls = "std::floot"
                elif "operator%" in err1:
                    cls = "remainder-operator-on-floating-point"
                elif "copysign" in err1 or "__promote" in err1:
                    cls = "sign-template-mixes-int-and-floating-types"
                elif "no matching function for call to" in err1 and ("max(" in err1 or "min(" in err1):
                    cls = "std::max/min-with-untyped-literal"
                elif any(f"‘{nm}’ was not declared" in err1 for nm in NAMED_WITHOUT_TEMPLATE):
                    cls = "named-constant-without-template:" + [nm for nm in NAMED_WITHOUT_TEMPLATE if f"‘{nm}’ was not declared" in err1][0]
                else:
                    cls = "other:" + offending_kind(graph)
                viol(part, f"cpp:does-not-compile:{cls}", f"{label}: g++ rejects the emitted function: {' | '.join(first)[:400]}\n{src[:500]}", case)
            else:
                part["nontrivial"] += 1
        return
    part["nontrivial"] += len(ok_items)
    # execute real-argument functions: bit-compare with the graph evaluated in the declared type with the primitives of
    # the same C++ library (LibmInterp)
    lib = ctypes.CDLL(so)
    for idx, graph, label, case, dts, src in ok_items:
        if any(np.dtype(d).kind == "c" for d in dts):
            bump(part, "cpp_not_executed_complex_arguments")
            continue
        kinds = set()
        stack, seen = [graph.operands[-1]], set()
        signs = []
        while stack:
            e = stack.pop()
            if id(e) in seen:
                continue
            seen.add(id(e))
            kinds.add(e.kind)
            if e.kind == "sign":
                signs.append(e)
            for o in e.operands:
                if isinstance(o, type(graph)):
                    stack.append(o)
        t = np.dtype(dts[0]).type
        if any(np.dtype(d).type is not t for d in dts):
            bump(part, "cpp_not_executed_mixed_argument_types")
            continue
        ct = ctypes.c_float if t is np.float32 else ctypes.c_double
        try:
            fn = getattr(lib, f"w_{idx}")
        except AttributeError:
            bump(part, "cpp_symbol_not_found_(mangled)")
            continue
        nargs = len(dts)
        fn.argtypes = [ct] * nargs
        body_is_bool = graph.operands[-1].kind in ("lt", "le", "gt", "ge", "eq", "ne", "logical_and", "logical_or", "logical_not", "is_finite")
        fn.restype = ctypes.c_bool if body_is_bool else ct
        grid = value_grid(nargs, False)
        cols = [np.array([v[i] for v in grid], dtype=t) for i in range(nargs)]
        try:
            want, extra = LibmInterp(fa, graph, lib, t).run(*cols, return_env=True)
            want = np.asarray(want)
        except interp.Unsupported as e:
            bump(part, "cpp_not_executed_reference_unsupported")
            continue
        except Exception:
            bump(part, "cpp_reference_failed")
            continue
        if not body_is_bool and want.dtype.type is not t:
            bump(part, "cpp_not_executed_result_type_differs")
            continue
        want = np.broadcast_to(want, (len(grid),))
        # the value of sign(+-0) is a zero whose sign the property does not fix (the Python, NumPy and C++ templates and
        # the rewriter's constant folding disagree on it): rows where some sign node sees a zero are not judged
        judged = np.ones(len(grid), bool)
        for sg in signs:
            judged &= np.broadcast_to(np.asarray(extra["env"][id(sg.operands[0])]) != 0, (len(grid),))
        bump(part, "cpp_executed")
        if kinds & set(LIBM_UN) - {"sqrt", "absolute", "floor", "ceil"} or "atan2" in kinds:
            bump(part, "cpp_executed_with_libm_primitives")
        for j in range(len(grid)):
            if not judged[j]:
                continue
            got = fn(*[ct(float(c[j])) for c in cols])
            w = want[j]
            if body_is_bool:
                same = bool(got) == bool(w)
            else:
                g = t(got)
                same = g.tobytes() == t(w).tobytes() or (np.isnan(g) and np.isnan(w))
            if not same:
                cls = "untyped-literal" if (t is np.float32 and "constant" in kinds) else ("sign-template-computes-in-double" if (t is np.float32 and "sign" in kinds) else offending_kind(graph))
                viol(part, f"cpp:value-differs:{cls}", f"{label} at {[c[j] for c in cols]}: compiled C++ returns {got!r}, evaluation of the graph in {t.__name__} with the same library gives {w!r}\n{src[:500]}", case)
                break


# ------------------------------------------------------------------ workers


def make_graph(fa, target_name, recipe, tx, ty, simplify=True):
    target = getattr(fa.targets, target_name)

    def f(ctx, x, y):
        return build_recipe(fa, ctx, recipe, {"x": x, "y": y})

    ctx = fa.Context(paths=[fa.algorithms])
    g = ctx.trace(f, f"x:{tx}", f"y:{ty}").rewrite(target)
    if simplify:
        g = g.rewrite(fa.rewrite)
    return g


def w_lattice(task):
    fa = setup_repo_import()
    part = new_part()
    TWINS = set(twin_constant_programs()) | {("complex", ("x",), ("y",)), ("real", ("complex", ("x",), ("y",))), ("imag", ("complex", ("x",), ("y",))), ("add", ("x",), ("y",)), ("select", ("lt", ("x",), ("y",)), ("x",), ("y",)),
                                             ("atan2", ("x",), ("y",)), ("multiply", ("add", ("x",), ("y",)), ("y",))}
    # (maximum/minimum on operands of different widths return an operand unchanged: recorded under C08, not repeated here)
    progs = lattice_programs()[task["lo"]::task["stride"]]
    workdir = tempfile.mkdtemp(prefix="c05_", dir="/var/tmp")
    try:
        cpp_items = []
        for recipe in progs:
            label = skeleton(recipe)
            for simplify in (False, True):
                case = {"recipe": repr(recipe), "simplify": simplify}
                with quiet():
                    try:
                        g = make_graph(fa, "python", recipe, "float", "float", simplify)
                    except Exception:
                        g = None
                if g is not None:
                    judge_python(fa, part, g, label + f" [python, simplify={simplify}]", dict(case, target="python"))
                for dt in ("float32", "float64"):
                    with quiet():
                        try:
                            g = make_graph(fa, "numpy", recipe, dt, dt, simplify)
                        except Exception:
                            g = None
                    if g is not None:
                        judge_numpy(fa, part, g, label + f" [numpy {dt}, simplify={simplify}]", dict(case, target="numpy", dt=dt), [getattr(np, dt)] * 2)
                    if recipe in TWINS and dt == "float32":
                        for tx_, ty_ in (("float64", "float32"), ("float32", "float64")):
                            with quiet():
                                try:
                                    g = make_graph(fa, "numpy", recipe, tx_, ty_, simplify)
                                except Exception:
                                    g = None
                            if g is not None:
                                judge_numpy(fa, part, g, label + f" [numpy x:{tx_} y:{ty_}, simplify={simplify}]", dict(case, target="numpy", dt=tx_, dty=ty_), [getattr(np, tx_), getattr(np, ty_)])
                    with quiet():
                        try:
                            g = make_graph(fa, "cpp", recipe, dt, dt, simplify)
                        except Exception:
                            g = None
                    if g is not None:
                        cpp_items.append((g, label + f" [cpp {dt}, simplify={simplify}]", dict(case, target="cpp", dt=dt), [getattr(np, dt)] * 2))
        for i in range(0, len(cpp_items), 60):
            judge_cpp_batch(fa, part, cpp_items[i:i + 60], workdir, f"{task['lo']}_{i}")
    finally:
        shutil.rmtree(workdir, ignore_errors=True)
    if progs:
        part["samples"].append({"lattice_program": skeleton(progs[len(progs) // 2])})
    return part


def w_list_arguments(task):
    """functions whose argument is a list (expansions in apmath are passed this way): f(lst) and f(lst, y)"""
    fa = setup_repo_import()
    part = new_part()
    import sys as _sys
    import warnings as _warnings

    x, y = ("x",), ("y",)
    recipes = [("add", ("multiply", x, y), x), ("select", ("lt", x, y), ("subtract", x, y), ("add", x, ("c", 0.5))), ("multiply", ("add", x, y), ("add", x, y)), ("sqrt", ("absolute", ("multiply", x, y)))]
    dts = ["float32", "float64"]
    vals = [0.0, -0.0, 0.5, -2.5, 1e-5, 123.456, 3.0, 1.0000000009313226]
    for ri, recipe in enumerate(recipes):
        for t0 in dts:
            for t1 in dts:
                for extra in (False, True):
                    for debug in (0, 1):
                        part["evaluations"] += 1
                        case = {"kind": "list-arguments", "recipe": ri, "t0": t0, "t1": t1, "extra": extra, "debug": debug, "scenario": "list-argument"}
                        label = f"f(lst: list[{t0}, {t1}]{', z' if extra else ''}) = {skeleton(recipe)} with x=lst[0], y=lst[1]{' times z' if extra else ''} [numpy, debug={debug}]"

                        if extra:

                            def f(ctx, lst, z):
                                return build_recipe(fa, ctx, recipe, {"x": lst[0], "y": lst[1]}) * z

                        else:

                            def f(ctx, lst):
                                return build_recipe(fa, ctx, recipe, {"x": lst[0], "y": lst[1]})

                        with quiet():
                            try:
                                ctx = fa.Context(paths=[fa.algorithms])
                                targs = [list[getattr(np, t0), getattr(np, t1)]] + ([getattr(np, t0)] if extra else [])
                                g = ctx.trace(f, *targs).rewrite(fa.targets.numpy)
                                src = g.tostring(fa.targets.numpy, debug=debug)
                                ns = dict(sys=_sys, numpy=np, make_complex=fa.utils.make_complex, finfo_float32=np.finfo(np.float32), finfo_float64=np.finfo(np.float64), warnings=_warnings)
                                exec(compile(src, "<emitted>", "exec"), ns)
                                fn = ns["f"]
                            except Exception as e:
                                bump(part, "list_not_accepted_" + type(e).__name__)
                                continue
                        if debug == 0:
                            for kind, nm in ssa_python(src):
                                viol(part, f"numpy:single-assignment:{kind}", f"{label}: variable `{nm}`: {kind}\n{src[:600]}", case)
                        A = np.array([a for a in vals for b in vals], dtype=getattr(np, t0))
                        B = np.array([b for a in vals for b in vals], dtype=getattr(np, t1))
                        Z = np.array([vals[(i * 3 + 1) % len(vals)] for i in range(len(A))], dtype=getattr(np, t0))
                        try:
                            want = np.asarray(interp.Interp(fa, g).run([A, B], *([Z] if extra else [])))
                        except Exception:
                            bump(part, "list_reference_failed")
                            continue
                        ok = True
                        for j in range(len(A)):
                            try:
                                with np.errstate(all="ignore"):
                                    with quiet():
                                        got = fn([A[j], B[j]], *([Z[j]] if extra else []))
                            except AssertionError:
                                bump(part, "numpy_debug_assertion")
                                ok = False
                                break
                            except Exception as e:
                                viol(part, f"numpy:raises:{type(e).__name__}:general", f"{label} at {[A[j], B[j]]}: {type(e).__name__}: {e}\n{src[:500]}", case)
                                ok = False
                                break
                            gg, w = np.asarray(got), np.asarray(want[j])
                            if not (gg.dtype == w.dtype and (vbytes(gg) == vbytes(w) or (np.isnan(gg) and np.isnan(w)))):
                                viol(part, "numpy:value-differs:general", f"{label} at {[A[j], B[j]]}: emitted code returns {got!r}, interpreter {w!r}", case)
                                ok = False
                                break
                        if ok:
                            part["nontrivial"] += 1
    part["samples"].append({"list_arguments": "f(lst[, z]) over 4 recipes x dtype pairs x debug 0/1"})
    return part


def reuse_alphabet():
    x, y = ("x",), ("y",)
    s_ = ("add", ("multiply", x, y), x)
    ra = ("ref", "a", ("add", x, y))
    rs, ra2 = ("ref", "s", ("add", x, y)), ("ref", "a", ("multiply", x, y))
    recipes = [("multiply", s_, s_), ("select", ("lt", x, y), ("sqrt", ("absolute", x)), ("add", y, ("c", 0.5))), ("multiply", ("ref", "t", ("add", x, y)), ("ref", "t", ("add", x, y))),
               # the same user-chosen name for different expressions in consecutive definitions, around a shared sub-expression
               ("multiply", ra, ra), ("subtract", ("add", ("multiply", rs, ra2), rs), ra2)]
    types = {"python": ["float", "complex"], "numpy": ["float32", "float64", "complex64"], "cpp": ["float32", "float64"]}
    return recipes, types


def w_reuse(task):
    """histories on ONE Context: a sequence of trace requests (recipe, dtype) with the same parameter names; the graph
    of the last request is emitted and judged like any other graph."""
    fa = setup_repo_import()
    part = new_part()
    recipes, types = reuse_alphabet()
    tgt = task["target"]
    alphabet = [(ri, t) for ri in range(len(recipes)) for t in types[tgt]]
    depth = task["depth"]
    seqs = [list(p) for d in range(2, depth + 1) for p in itertools.product(alphabet, repeat=d)][task["lo"]::task["stride"]]
    workdir = tempfile.mkdtemp(prefix="c05_", dir="/var/tmp")
    try:
        cpp_items = []
        for seq in seqs:
            seq = [tuple(e) for e in seq]
            ctx = fa.Context(paths=[fa.algorithms])
            target = getattr(fa.targets, tgt)
            g = None
            with quiet():
                try:
                    for si, (ri, t) in enumerate(seq):

                        def f(ctx, x, y):
                            return build_recipe(fa, ctx, recipes[ri], {"x": x, "y": y})

                        g = ctx.trace(f, f"x:{t}", f"y:{t}").rewrite(target)
                        if si < len(seq) - 1:
                            try:
                                g.tostring(target)  # emitting registers the reference names of this graph in the Context
                            except Exception:
                                pass
                except Exception:
                    g = None
            if g is None:
                bump(part, "reuse_not_traced")
                continue
            ri, t = seq[-1]
            label = "one Context, requests " + " ; ".join(f"{skeleton(recipes[r])}[{tt}]" for r, tt in seq) + f" [{tgt}]"
            case = {"scenario": "context-reused", "target": tgt, "sequence": [[r, tt] for r, tt in seq]}
            part["transitions"] = part.get("transitions", 0) + len(seq)
            if recipes[ri][0] == "select" and t.startswith("complex"):
                continue
            if tgt == "python":
                judge_python(fa, part, g, label, case)
            elif tgt == "numpy":
                judge_numpy(fa, part, g, label, case, [getattr(np, t)] * 2)
            else:
                cpp_items.append((g, label, case, [getattr(np, t)] * 2))
        for i in range(0, len(cpp_items), 60):
            judge_cpp_batch(fa, part, cpp_items[i:i + 60], workdir, f"reuse_{task['lo']}_{i}")
    finally:
        shutil.rmtree(workdir, ignore_errors=True)
    if seqs:
        part["samples"].append({"context_reuse_sequence": str(seqs[len(seqs) // 2])})
    return part


def w_shipped(task):
    fa = setup_repo_import()
    part = new_part()
    workdir = tempfile.mkdtemp(prefix="c05_", dir="/var/tmp")
    try:
        cpp_items = []
        for req in task["reqs"]:
            req = tuple(req)
            with quiet():
                try:
                    g, target = gen.build_graph(fa, req)
                except NotImplementedError:
                    bump(part, "shipped_not_implemented")
                    continue
                except Exception as e:
                    bump(part, "shipped_not_accepted_" + type(e).__name__)
                    continue
            atypes = target.trace_arguments[req[1]][req[2]]
            names = [a.split(":")[1].strip() for a in atypes]
            dts = [getattr(np, {"float": "float64", "complex": "complex128"}.get(n, n)) for n in names]
            case = {"req": list(req)}
            if req[0] == "python":
                judge_python(fa, part, g, str(req), case)
            elif req[0] == "numpy":
                judge_numpy(fa, part, g, str(req), case, dts)
            else:
                cpp_items.append((g, str(req), case, dts))
        if cpp_items:
            judge_cpp_batch(fa, part, cpp_items, workdir, "shipped")
    finally:
        shutil.rmtree(workdir, ignore_errors=True)
    if task["reqs"]:
        part["samples"].append({"shipped": task["reqs"][0]})
    return part


def run(run):
    fa = setup_repo_import()
    reqs = gen.requests(fa, ["python", "numpy", "cpp"])
    run.map(MOD, "w_shipped", [dict(reqs=[list(r) for r in reqs[i::32]]) for i in range(32)])
    n = len(lattice_programs())
    run.counters["lattice_programs"] = n
    run.map(MOD, "w_lattice", [dict(lo=lo, stride=48) for lo in range(48)])
    run.map(MOD, "w_list_arguments", [dict()])
    depth = 3 if run.tier == "thorough" else 2
    run.map(MOD, "w_reuse", [dict(target=tg, depth=depth, lo=lo, stride=6) for tg in ("python", "numpy", "cpp") for lo in range(6)])
    run.coverage_extra["programs"] = int(run.evaluations)
    run.rule = (
        f"{len(reqs)} shipped requests (python, numpy, cpp) and {n} lattice programs (every declared kind on symbols; outer x inner x operand position incl. select and comparisons as "
        "inner nodes; 14 constant classes in left/right/branch/divisor position; diamonds and shared sub-expressions), with and without fa.rewrite, float32 and float64 for numpy/cpp, "
        "debug 0/1 for numpy: emitted source must load (compile/exec, g++ -c), be single-assignment, and return the same bits as the independent evaluation of the graph on "
        "a 16x16 special+generic input grid (python: eager math interpreter; numpy: mc.interp; cpp: mc.interp in the same type for graphs built from correctly rounded primitives); "
        "non-trivial = programs that loaded and were executed"
    )
    run.exhaustive = True
    run.coverage_extra["exhaustive_scope"] = "all shipped requests and the complete declared lattice; C++ execution only for graphs whose primitives are correctly rounded in both libraries"
    run.assumptions = ["glibc and NumPy agree bit for bit on +,-,*,/,sqrt, comparisons (IEEE)", "the emitted Python code may raise less than an eager evaluation (lazy select), never more"]


def replay(case):
    fa = setup_repo_import()
    part = new_part()
    if "req" in case:
        part = w_shipped(dict(reqs=[case["req"]]))
    elif case.get("kind") == "list-arguments":
        part = w_list_arguments(dict())
    elif "sequence" in case:
        recipes, types = reuse_alphabet()
        seq = [tuple(e) for e in case["sequence"]]
        tgt = case["target"]
        alphabet = [(ri, t) for ri in range(len(recipes)) for t in types[tgt]]
        allseq = [list(p) for d in range(2, len(seq) + 1) for p in itertools.product(alphabet, repeat=d)]
        part = w_reuse(dict(target=tgt, depth=len(seq), lo=allseq.index(seq), stride=len(allseq)))
    else:
        recipe = eval(case["recipe"])
        label = skeleton(recipe)
        tgt = case.get("target", "python")
        workdir = tempfile.mkdtemp(prefix="c05_", dir="/var/tmp")
        try:
            with quiet():
                if tgt == "python":
                    g = make_graph(fa, "python", recipe, "float", "float", case["simplify"])
                else:
                    g = make_graph(fa, tgt, recipe, case["dt"], case.get("dty", case["dt"]), case["simplify"])
            if tgt == "python":
                judge_python(fa, part, g, label, case)
            elif tgt == "numpy":
                judge_numpy(fa, part, g, label, case, [getattr(np, case["dt"]), getattr(np, case.get("dty", case["dt"]))])
            else:
                judge_cpp_batch(fa, part, [(g, label, case, [getattr(np, case["dt"])] * 2)], workdir, "replay")
        finally:
            shutil.rmtree(workdir, ignore_errors=True)
    return [(v["sig"], v["msg"][:600]) for v in part["violations"]]
