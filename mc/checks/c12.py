"""C12 — floating-point expansion arithmetic preserves value and normal form.

Enumerated: all lists of length 1..L over a float16 alphabet built for the combinatorics named in
the statement (zeros in any position, equal magnitudes, adjacent binades, overlap by 1..p bits,
exact cancellation, subnormal tails), x {functional, eager} x {fast, safe} x size in {None,1,2,len};
the functional variant both under utils.NumpyContext (vectorised) and as a traced + emitted NumPy
graph.  add/subtract on all pairs of valid length-<=2 expansions; multiply/square likewise.
float32/float64: the same shapes scaled to the format, Fraction oracle.
Oracle: exact sums (float64 holds sums of <= 6 float16 values exactly; Fractions otherwise);
independent overlap predicate: for |x| >= |y| > 0, non-overlapping iff |y| < ulp(x) with
ulp(x) = 2^(floor(log2|x|) - p + 1) clamped at the subnormal spacing.
"""

from __future__ import annotations

import itertools
from fractions import Fraction as F

import numpy as np

from mc.harness import add_violation, bump, new_part, quiet, setup_repo_import
from mc.oracle import FMT

PROPERTY = "C12"
LEVEL = "exploration"
MOD = "mc.checks.c12"
DT = {"float16": np.float16, "float32": np.float32, "float64": np.float64}


def my_ulp(a, dtname):
    """spacing of the format at |a| (array, float64 arithmetic), clamped at the subnormal spacing."""
    f = FMT[dtname]
    a = np.abs(np.asarray(a, dtype=np.float64))
    _, e = np.frexp(a)
    return np.ldexp(1.0, np.maximum(e - f["p"], f["emin"] - f["p"] + 1))


def nonoverlap(x, y, dtname):
    """independent predicate for |x| >= |y| > 0 (arrays of float64 values)."""
    return np.abs(y) < my_ulp(x, dtname)


def alphabet(dtname, level, seed):
    """~40 (level 1) / ~24 (level 0) values: zero, +-1, values overlapping 1 by 1..p bits, equal
    magnitudes, adjacent binades, exact-cancellation partners, tails down to subnormals."""
    t = DT[dtname]
    f = FMT[dtname]
    p = f["p"]
    fi = np.finfo(t)
    eps = float(fi.eps)
    sub = float(fi.smallest_subnormal)
    sn = float(fi.smallest_normal)
    vals = [0.0, 1.0, -1.0, 1.0 + eps, 1.0 - eps / 2, 2.0, 0.5, 1.5, -1.5, 3.0,
            eps, -eps, eps / 2, eps * 1.5, eps * eps * 0 + eps / 4, 2 ** -(p // 2), 1 + 2.0 ** -(p // 2), -(2.0 ** -(p // 2)),
            2.0 ** -(p - 2), 2.0 ** -(p + 3), 1024.0 if dtname == "float16" else 2.0 ** (2 * p), -(1024.0 + 1) if dtname == "float16" else -(2.0 ** (2 * p)),
            sn, -sn, sub, -sub, 3 * sub, sn * (1 + eps), sn / 2, 0.333251953125 if dtname == "float16" else 1 / 3, -0.1 , 7.0, 1e-3, -1e-3]
    if level >= 1:
        vals += [1 - eps, -(1 + eps), 2.0 ** -p, 2.0 ** -(p - 1) * 1.5, 100.0, -100.5, 2.0 ** -(p + 1), eps * (1 + eps), sn * 2 ** p, -sn * 1.5]
    a = np.array(vals, dtype=np.float64).astype(t)
    a = a[np.isfinite(a)]
    bits = np.unique(a.view(f["ui"]))
    v = bits.view(t)
    return v


# ------------------------------------------------------------------ renormalize


def renorm_call(fa, dtname, cols, functional, fast, size, fix_overflow=False):
    ap = fa.apmath
    ctx = fa.utils.NumpyContext(DT[dtname])
    if fix_overflow:
        return ap.renormalize(ctx, list(cols), functional=functional, fast=fast, size=size, fix_overflow=True)
    return ap.renormalize(ctx, list(cols), functional=functional, fast=fast, size=size)


_TRACED = {}


def traced_renorm(fa, dtname, n, fast, size):
    key = (dtname, n, fast, size)
    if key not in _TRACED:
        import functional_algorithms.apmath_algorithms as apa

        dtype = DT[dtname]
        ap = fa.apmath

        names = ["x%d" % i for i in range(n)]
        src = "def f(ctx, %s):\n    return ap.renormalize(ctx, [%s], functional=True, fast=%r, size=%r)\n" % (
            ", ".join("%s: float" % a for a in names), ", ".join(names), fast, size)
        ns = {"ap": ap}
        exec(src, ns)
        try:
            with quiet():
                ctx = fa.Context(paths=[apa])
                g = ctx.trace(ns["f"], *([dtype] * n))
                g = g.rewrite(fa.targets.numpy, fa.rewrite, fa.rewrite)
                _TRACED[key] = fa.targets.numpy.as_function(g, debug=0, force_cast_arguments=False)
        except Exception as e:
            _TRACED[key] = e
    return _TRACED[key]


def as_cols(res, n_rows, t):
    """normalise a result (list of arrays / scalars) to a list of arrays of length n_rows."""
    out = []
    for r in res:
        r = np.asarray(r)
        if r.shape == ():
            r = np.full(n_rows, r, dtype=r.dtype)
        out.append(r)
    return out


def judge_normal_form(part, sig, dtname, cols, inputs, label, mask, functional):
    """cols: list of arrays (the expansion, leading first). Checks ordered by decreasing magnitude,
    non-zero neighbours non-overlapping, zeros only at the tail (functional)."""
    if not cols:
        return
    W = [c.astype(np.float64) for c in cols]
    bad = np.zeros(W[0].shape, bool)
    n = len(W)
    # compact view: for each row walk neighbours, skipping zeros only if trailing
    seen_zero = np.zeros(W[0].shape, bool)
    prev = W[0]
    for i in range(1, n):
        cur = W[i]
        seen_zero |= prev == 0
        nz = cur != 0
        bad |= nz & seen_zero  # non-zero after a zero: zeros must be at the tail
        both = nz & (prev != 0)
        bad |= both & ~((np.abs(prev) > np.abs(cur)) & nonoverlap(prev, cur, dtname))
        prev = cur
    bad &= mask
    report(part, sig, dtname, inputs, bad, lambda i: f"{label}: input {[float(c[i]) for c in inputs]} -> {[float(c[i]) for c in cols]} is not a normal-form expansion")


def report(part, sig, dtname, inputs, bad, msgf, extra=None):
    idx = np.flatnonzero(bad)
    if not len(idx):
        return
    part["counters"]["viol:" + sig] = part["counters"].get("viol:" + sig, 0) + int(len(idx)) - min(3, len(idx))
    for i in idx[:3]:
        case = {"kind": "list", "sig": sig, "dtype": dtname, "xs": [float(c[i]).hex() for c in inputs]}
        if extra:
            case.update(extra)
        add_violation(part, sig, msgf(i), case)


def check_renorm(part, fa, dtname, cols, routes=("numpyctx", "traced", "eager"), eager_stride=1):
    """cols: list of n arrays (all rows = lists to renormalise)."""
    t = DT[dtname]
    n = len(cols)
    N = len(cols[0])
    W = [c.astype(np.float64) for c in cols]
    exact = sum(W[1:], W[0])  # exact for float16 (<= 6 terms); callers use Fractions for wider types
    absum = sum((np.abs(w) for w in W[1:]), np.abs(W[0]))
    fi = np.finfo(t)
    safe = absum < float(fi.max) / 2  # absent overflow
    mags = [np.abs(w) for w in W]
    # domain of fast=True (Fast2Sum inside): the non-zero items already form a strictly decreasing,
    # non-overlapping sequence (zeros may be interleaved) -- renormalize's docstring promises nothing
    # ("the output will be inaccurate") for fast=True otherwise
    decreasing = np.ones(N, bool)
    last = np.full(N, np.inf)
    for m in mags:
        nz = m != 0
        with np.errstate(all="ignore"):
            okstep = (m < last) & (np.isinf(last) | nonoverlap(np.where(np.isinf(last), 1.0, last), m, dtname))
        decreasing &= ~nz | okstep
        last = np.where(nz, m, last)
    part["nontrivial"] += int((safe & (sum((m != 0).astype(int) for m in mags) >= 2)).sum())
    for fixo in (False, True):
        for functional in (True, False):
            for fast in (False, True):
                dom = safe & (decreasing if fast else True)
                if not dom.any():
                    continue
                for size in ((None, 1, 2, n) if not fixo else (None,)):
                    if size is not None and size > n:
                        continue
                    label = f"renormalize[functional={functional},fast={fast},size={size},n={n}{',fix_overflow=True' if fixo else ''}]"
                    sigbase = f"renormalize:{dtname}:functional={functional}:fast={fast}:size={'None' if size is None else ('len' if size == n else size)}" + (":fix_overflow" if fixo else "")
                    if functional:
                        for route in ("numpyctx", "traced"):
                            if route not in routes or (fixo and route == "traced"):
                                continue
                            try:
                                with np.errstate(all="ignore"):
                                    if route == "numpyctx":
                                        res = renorm_call(fa, dtname, cols, True, fast, size, fixo)
                                    else:
                                        fn = traced_renorm(fa, dtname, n, fast, size)
                                        if isinstance(fn, Exception):
                                            raise fn
                                        res = fn(*cols)
                                        if not isinstance(res, (list, tuple)):
                                            res = [res]
                            except Exception as e:
                                add_violation(part, f"{sigbase}:{route}:raises", f"{label} via {route} raised {type(e).__name__}: {e}", {"kind": "list", "sig": sigbase, "dtype": dtname, "xs": [float(c[0]).hex() for c in cols]})
                                continue
                            R = as_cols(res, N, t)
                            judge_renorm_result(part, fa, f"{sigbase}:{route}", label + " via " + route, dtname, cols, R, exact, dom, size, n, True, fast)
                    elif "eager" in routes:
                        idx = np.flatnonzero(dom)[::eager_stride]
                        if not len(idx):
                            continue
                        outs = []
                        ok_idx = []
                        for i in idx:
                            try:
                                with np.errstate(all="ignore"):
                                    r = renorm_call(fa, dtname, [c[i] for c in cols], False, fast, size, fixo)
                            except Exception as e:
                                add_violation(part, f"{sigbase}:eager:raises", f"{label} raised {type(e).__name__}: {e} on {[float(c[i]) for c in cols]}", {"kind": "list", "sig": sigbase, "dtype": dtname, "xs": [float(c[i]).hex() for c in cols]})
                                continue
                            outs.append(list(r) + [t(0)] * (n - len(r)))
                            ok_idx.append(i)
                        if not outs:
                            continue
                        ok_idx = np.array(ok_idx)
                        R = [np.array([o[j] for o in outs], dtype=t) for j in range(n)]
                        sub = [c[ok_idx] for c in cols]
                        judge_renorm_result(part, fa, f"{sigbase}:eager", label + " (eager)", dtname, sub, R, exact[ok_idx], np.ones(len(ok_idx), bool), size, n, False, fast)


def judge_renorm_result(part, fa, sig, label, dtname, cols, R, exact, dom, size, n, functional, fast):
    t = DT[dtname]
    N = len(cols[0])
    part["evaluations"] += int(dom.sum())
    if functional and len(R) != (n if size is None else min(size, n)):
        add_violation(part, sig + ":length", f"{label}: functional result has length {len(R)}", {"kind": "list", "sig": sig, "dtype": dtname, "xs": [float(c[0]).hex() for c in cols]})
        return
    Rw = [r.astype(np.float64) for r in R]
    fin = np.ones(N, bool)
    for r in Rw:
        fin &= np.isfinite(r)
    bad_fin = dom & ~fin
    report(part, sig + ":nonfinite", dtname, cols, bad_fin, lambda i: f"{label}: input {[float(c[i]) for c in cols]} -> {[float(r[i]) for r in R]}")
    tot = sum(Rw[1:], Rw[0]) if Rw else np.zeros(N)
    truncating = size is not None and size < n
    if not truncating:
        bad = dom & fin & ~(tot == exact)
        report(part, sig + ":sum-changed", dtname, cols, bad, lambda i: f"{label}: input {[float(c[i]) for c in cols]} (exact sum {exact[i]!r}) -> {[float(r[i]) for r in R]} (sum {tot[i]!r})")
        # second pass -> normal form
        try:
            with np.errstate(all="ignore"):
                if functional:
                    R2 = as_cols(renorm_call(fa, dtname, R, True, False, None), N, t)
                else:
                    R2 = None
        except Exception as e:
            add_violation(part, sig + ":second-pass-raises", f"{label}: second pass raised {type(e).__name__}: {e}", {"kind": "list", "sig": sig, "dtype": dtname, "xs": [float(c[0]).hex() for c in cols]})
            return
        if R2 is not None:
            R2w = [r.astype(np.float64) for r in R2]
            tot2 = sum(R2w[1:], R2w[0])
            bad = dom & fin & ~(tot2 == exact)
            report(part, sig + ":sum-changed-pass2", dtname, cols, bad, lambda i: f"{label}: second pass changes the sum: {[float(r[i]) for r in R]} -> {[float(r[i]) for r in R2]}")
            judge_normal_form(part, sig + ":not-normal-after-2-passes" + (":n>=5" if n >= 5 else ""), dtname, R2, cols, label, dom & fin, True)
        else:
            # eager: second pass per row
            ctxrows = np.flatnonzero(dom & fin)
            outs = []
            for i in ctxrows:
                row = [r[i] for r in R]
                row = [v for v in row if v != 0] or [t(0)]
                with np.errstate(all="ignore"):
                    r2 = renorm_call(fa, dtname, row, False, False, None)
                outs.append(list(r2) + [t(0)] * (n - len(r2)))
            if outs:
                R2 = [np.array([o[j] for o in outs], dtype=t) for j in range(n)]
                sub = [c[ctxrows] for c in cols]
                R2w = [r.astype(np.float64) for r in R2]
                tot2 = sum(R2w[1:], R2w[0])
                bad = ~(tot2 == exact[ctxrows])
                report(part, sig + ":sum-changed-pass2", dtname, sub, bad, lambda i: f"{label}: second pass changes the sum -> {[float(r[i]) for r in R2]}")
                judge_normal_form(part, sig + ":not-normal-after-2-passes" + (":n>=5" if n >= 5 else ""), dtname, R2, sub, label, np.ones(len(ctxrows), bool), False)
    else:
        # truncated: the result must be the leading `size` non-zero terms of the untruncated result
        try:
            with np.errstate(all="ignore"):
                full = as_cols(renorm_call(fa, dtname, cols, True, fast, None), N, t)
        except Exception:
            return
        fullw = [r.astype(np.float64) for r in full]
        bad = np.zeros(N, bool)
        for j in range(min(len(R), size)):
            bad |= ~(Rw[j] == fullw[j])
        bad &= dom & fin
        report(part, sig + ":truncation-not-a-prefix", dtname, cols, bad, lambda i: f"{label}: {[float(r[i]) for r in R]} is not the leading part of {[float(r[i]) for r in full]}")


# ------------------------------------------------------------------ add / subtract / multiply / square


def valid_expansions(dtname, A, maxlen=2):
    """all normal-form expansions of length 1..maxlen over alphabet A."""
    t = DT[dtname]
    out = [[a] for a in A]
    if maxlen >= 2:
        for a in A:
            if a == 0:
                continue
            for b in A:
                if b != 0 and abs(float(b)) < abs(float(a)) and bool(nonoverlap(np.float64(a), np.float64(b), dtname)):
                    out.append([a, b])
    return out


def fsum(lst):
    return sum((F(float(v)) for v in lst), F(0))


def lead_ulp(lst, dtname):
    f = FMT[dtname]
    for v in lst:
        if v != 0:
            return F(float(my_ulp(np.float64(v), dtname)))
    return F(2) ** (f["emin"] - f["p"] + 1)


def w_arith(task):
    fa = setup_repo_import()
    part = new_part()
    dtname = task["dtype"]
    t = DT[dtname]
    f = FMT[dtname]
    ap = fa.apmath
    ctx = fa.utils.NumpyContext(t)
    A = np.array(task["alphabet_bits"], dtype=np.uint64).astype(f["ui"]).view(t)
    E = valid_expansions(dtname, A, 2)
    rows = E[task["rows"][0]:task["rows"][1]]
    big = F(float(np.finfo(t).max)) / 4
    lowq = F(2) ** (f["emin"] - f["p"] + 1)
    for e1 in rows:
        s1 = fsum(e1)
        for e2 in E[:: task["stride"]]:
            s2 = fsum(e2)
            for functional in (False, True):
                for op, exact in (("add", s1 + s2), ("subtract", s1 - s2)):
                    part["evaluations"] += 1
                    case = {"kind": "arith", "op": op, "dtype": dtname, "functional": functional, "e1": [float(v).hex() for v in e1], "e2": [float(v).hex() for v in e2]}
                    if abs(s1) + abs(s2) > big:
                        continue
                    try:
                        with np.errstate(all="ignore"):
                            r = getattr(ap, op)(ctx, list(e1), list(e2), functional=functional)
                    except Exception as ex:
                        add_violation(part, f"{op}:{dtname}:functional={functional}:raises", f"{op}({e1},{e2}) raised {type(ex).__name__}: {ex}", case)
                        continue
                    if fsum(r) != exact:
                        add_violation(part, f"{op}:{dtname}:functional={functional}:inexact", f"{op}({e1},{e2}, functional={functional}) = {r} sums to {float(fsum(r))!r}, exact {float(exact)!r}", case)
                    if exact != 0:
                        part["nontrivial"] += 1
                if task["mul"]:
                    exact = s1 * s2
                    if abs(exact) > big or (exact / lowq).denominator != 1 or any((F(float(a)) * F(float(b)) / lowq).denominator != 1 for a in e1 for b in e2):
                        bump(part, "mul_skipped_underflow_or_overflow")
                    else:
                        part["evaluations"] += 1
                        case = {"kind": "arith", "op": "multiply", "dtype": dtname, "functional": functional, "e1": [float(v).hex() for v in e1], "e2": [float(v).hex() for v in e2]}
                        try:
                            with np.errstate(all="ignore"):
                                r = ap.multiply(ctx, list(e1), list(e2), functional=functional)
                            err = abs(fsum(r) - exact)
                            if not (err < lead_ulp(r, dtname)) and exact != 0:
                                add_violation(part, f"multiply:{dtname}:functional={functional}:error>=1ulp-of-leading-term", f"multiply({e1},{e2}) = {r}: error {float(err)!r}", case)
                        except Exception as ex:
                            add_violation(part, f"multiply:{dtname}:functional={functional}:raises", f"multiply({e1},{e2}) raised {type(ex).__name__}: {ex}", case)
        # square
        exact = s1 * s1
        if abs(exact) <= big and (exact / lowq).denominator == 1 and all((F(float(a)) * F(float(b)) / lowq).denominator == 1 for a in e1 for b in e1):
            for functional in (False, True):
                part["evaluations"] += 1
                case = {"kind": "arith", "op": "square", "dtype": dtname, "functional": functional, "e1": [float(v).hex() for v in e1], "e2": []}
                try:
                    with np.errstate(all="ignore"):
                        r = ap.square(ctx, list(e1), functional=functional)
                    err = abs(fsum(r) - exact)
                    if not (err < lead_ulp(r, dtname)) and exact != 0:
                        add_violation(part, f"square:{dtname}:functional={functional}:error>=1ulp-of-leading-term", f"square({e1}) = {r}: error {float(err)!r}", case)
                except Exception as ex:
                    add_violation(part, f"square:{dtname}:functional={functional}:raises", f"square({e1}) raised {type(ex).__name__}: {ex}", case)
    if rows:
        part["samples"].append({"arith": dtname, "e1": [float(v) for v in rows[0]], "n_e2": len(E[:: task["stride"]])})
    return part


def general_alphabet(dtname):
    """small alphabet for arbitrary (overlapping, unordered, zero-containing) lists"""
    t = DT[dtname]
    p = FMT[dtname]["p"]
    u = float(np.ldexp(1.0, -(p - 1)))
    vals = [0.0, 1.0, -1.0, 1.5, 0.5, 3.0, 1.0 + u, -(1.0 - u / 2), u, -u / 2, float(np.ldexp(1.0 + 3 * u, -p - 2)), 0.75]
    return [t(v) for v in vals]


def w_arith_general(task):
    """add/subtract/multiply/square on arbitrary lists (not in normal form): the property quantifies over all finite
    expansions, overlapping or not, with zeros."""
    fa = setup_repo_import()
    part = new_part()
    dtname = task["dtype"]
    t = DT[dtname]
    f = FMT[dtname]
    ap = fa.apmath
    ctx = fa.utils.NumpyContext(t)
    G = general_alphabet(dtname)
    lists = [[a] for a in G] + [[a, b] for a in G for b in G] + ([[a, b, c] for a in G for b in G for c in G] if task["maxlen"] >= 3 else [])
    pairs_src = [l for l in lists if len(l) <= 2]
    rows = lists[task["lo"]::task["stride"]]
    lowq = F(2) ** (f["emin"] - f["p"] + 1)

    def products_exact(l1, l2):
        # Dekker's product is error-free only if no partial product underflows (documented domain, as in w_arith)
        return all((F(float(a)) * F(float(b)) / lowq).denominator == 1 for a in l1 for b in l2)

    for e1 in rows:
        s1 = fsum(e1)
        exact = s1 * s1
        for functional in (False, True):
            if not products_exact(e1, e1):
                bump(part, "general_square_skipped_underflow")
                break
            part["evaluations"] += 1
            case = {"kind": "arith", "op": "square", "dtype": dtname, "functional": functional, "e1": [float(v).hex() for v in e1], "e2": [], "general": True}
            try:
                with np.errstate(all="ignore"):
                    r = ap.square(ctx, list(e1), functional=functional)
                err = abs(fsum(r) - exact)
                if not (err < lead_ulp(r, dtname)) and exact != 0:
                    add_violation(part, f"square:{dtname}:functional={functional}:error>=1ulp-of-leading-term:general-list", f"square({e1}) = {r}: error {float(err)!r}", case)
                if exact != 0 and len([v for v in e1 if v != 0]) >= 2:
                    part["nontrivial"] += 1
            except Exception as ex:
                add_violation(part, f"square:{dtname}:functional={functional}:raises:general-list", f"square({e1}) raised {type(ex).__name__}: {ex}", case)
        if len(e1) > 2:
            continue
        for e2 in pairs_src[:: task["pair_stride"]]:
            s2 = fsum(e2)
            for functional in (False, True):
                for op, exact in (("add", s1 + s2), ("subtract", s1 - s2), ("multiply", s1 * s2)):
                    if op == "multiply" and not products_exact(e1, e2):
                        bump(part, "general_multiply_skipped_underflow")
                        continue
                    part["evaluations"] += 1
                    case = {"kind": "arith", "op": op, "dtype": dtname, "functional": functional, "e1": [float(v).hex() for v in e1], "e2": [float(v).hex() for v in e2], "general": True}
                    try:
                        with np.errstate(all="ignore"):
                            r = getattr(ap, op)(ctx, list(e1), list(e2), functional=functional)
                    except Exception as ex:
                        add_violation(part, f"{op}:{dtname}:functional={functional}:raises:general-list", f"{op}({e1},{e2}) raised {type(ex).__name__}: {ex}", case)
                        continue
                    if op == "multiply":
                        err = abs(fsum(r) - exact)
                        if not (err < lead_ulp(r, dtname)) and exact != 0:
                            add_violation(part, f"multiply:{dtname}:functional={functional}:error>=1ulp-of-leading-term:general-list", f"multiply({e1},{e2}) = {r}: error {float(err)!r}", case)
                    elif fsum(r) != exact:
                        add_violation(part, f"{op}:{dtname}:functional={functional}:inexact:general-list", f"{op}({e1},{e2}, functional={functional}) = {r} sums to {float(fsum(r))!r}, exact {float(exact)!r}", case)
    # size limits: when the exact result fits into `size` non-zero terms no truncation takes place, so the result must
    # still be exact (operands longer than the limit, cancelling leading terms)
    p = f["p"]
    u = float(np.ldexp(1.0, -(p - 1)))
    T = [t(v) for v in (1.0, 1.0 + u, 1.5 * u, -u / 2, 1.25 * u * u, 0.0)]
    tails = [[a, b, c] for a in T for b in T for c in T]
    # operands of very different lengths for multiply (every anti-diagonal of the product must be formed)
    U = [t(v) for v in (1.0, 3.0, 0.5, 0.0, 1.0 + u, -2.0)]
    long_lists = [[a, b, c] for a in U for b in U for c in U] + [[a, b, c, d] for a in U[:4] for b in U[:4] for c in U[:4] for d in U[:4]]
    for e1 in ([[a] for a in U] + [[a, b] for a in U[:4] for b in U[:4]])[task["lo"]::task["stride"]]:
        s1 = fsum(e1)
        for e2 in long_lists:
            for a_, b_ in ((e1, e2), (e2, e1)):
                if not products_exact(a_, b_):
                    continue
                exact = s1 * fsum(e2)
                for functional in (False, True):
                    part["evaluations"] += 1
                    case = {"kind": "arith", "op": "multiply", "dtype": dtname, "functional": functional, "e1": [float(v).hex() for v in a_], "e2": [float(v).hex() for v in b_], "general": True}
                    try:
                        with np.errstate(all="ignore"):
                            r = ap.multiply(ctx, list(a_), list(b_), functional=functional)
                    except Exception as ex:
                        add_violation(part, f"multiply:{dtname}:functional={functional}:raises:general-list", f"multiply({a_},{b_}) raised {type(ex).__name__}: {ex}", case)
                        continue
                    err = abs(fsum(r) - exact)
                    if not (err < lead_ulp(r, dtname)) and exact != 0:
                        add_violation(part, f"multiply:{dtname}:functional={functional}:error>=1ulp-of-leading-term:operands-of-different-length", f"multiply({a_},{b_}) = {r}: error {float(err)!r} (exact {float(exact)!r})", case)
    for e1 in [l for l in lists if len(l) <= 2][task["lo"]::task["stride"]]:
        s1 = fsum(e1)
        for e2 in tails[:: task["pair_stride"]]:
            s2 = fsum(e2)
            for swap in (False, True):
                a_, b_ = (e2, e1) if swap else (e1, e2)
                for op, exact in (("add", s1 + s2), ("subtract", (s2 - s1) if swap else (s1 - s2))):
                    try:
                        with np.errstate(all="ignore"):
                            full = getattr(ap, op)(ctx, list(a_), list(b_), functional=False)
                    except Exception:
                        continue
                    if fsum(full) != exact:
                        continue  # judged (and reported) by the unlimited sub-check
                    nz = len([v for v in full if v != 0])
                    for size in (1, 2):
                        if nz > size:
                            continue
                        for functional in (False, True):
                            part["evaluations"] += 1
                            case = {"kind": "arith", "op": op, "dtype": dtname, "functional": functional, "e1": [float(v).hex() for v in a_], "e2": [float(v).hex() for v in b_], "general": True, "size": size}
                            try:
                                with np.errstate(all="ignore"):
                                    r = getattr(ap, op)(ctx, list(a_), list(b_), functional=functional, size=size)
                            except Exception as ex:
                                add_violation(part, f"{op}:{dtname}:functional={functional}:raises:size-limit", f"{op}({a_},{b_}, size={size}) raised {type(ex).__name__}: {ex}", case)
                                continue
                            if fsum(r) != exact:
                                add_violation(part, f"{op}:{dtname}:functional={functional}:inexact-although-result-fits-size-limit", f"{op}({a_},{b_}, functional={functional}, size={size}) = {r} sums to {float(fsum(r))!r}; the exact result {float(exact)!r} has {nz} non-zero term(s) ({full})", case)
                            if len([v for v in r if v != 0]) > size:
                                add_violation(part, f"{op}:{dtname}:functional={functional}:more-than-size-terms", f"{op}({a_},{b_}, size={size}) = {r}", case)
    if rows:
        part["samples"].append({"arith_general": dtname, "e1": [float(v) for v in rows[0]], "lists": len(lists)})
    return part


# ------------------------------------------------------------------ workers


def w_renorm16(task):
    fa = setup_repo_import()
    part = new_part()
    A = np.array(task["alphabet_bits"], dtype=np.uint16).view(np.float16)
    n = task["n"]
    firsts = A[task["rows"][0]:task["rows"][1]]
    if not len(firsts):
        return part
    grids = np.meshgrid(firsts, *([A] * (n - 1)), indexing="ij")
    cols = [g.ravel() for g in grids]
    check_renorm(part, fa, "float16", cols, eager_stride=task["eager_stride"])
    part["samples"].append({"renormalize": "float16", "n": n, "first": float(firsts[0]), "lists": int(len(cols[0]))})
    return part


def w_renorm_wide(task):
    """float32/float64: shapes scaled to the format; Fraction exact sums, eager + functional scalar."""
    fa = setup_repo_import()
    part = new_part()
    dtname = task["dtype"]
    t = DT[dtname]
    f = FMT[dtname]
    A = np.array(task["alphabet_bits"], dtype=np.uint64).astype(f["ui"]).view(t)
    n = task["n"]
    firsts = A[task["rows"][0]:task["rows"][1]]
    big = F(float(np.finfo(t).max)) / 2
    for first in firsts:
        for rest in itertools.product(A, repeat=n - 1):
            lst = [first] + list(rest)
            exact = fsum(lst)
            if sum(abs(F(float(v))) for v in lst) > big:
                continue
            mags = [abs(float(v)) for v in lst if v != 0]
            decreasing = all(mags[i] > mags[i + 1] and bool(nonoverlap(np.float64(mags[i]), np.float64(mags[i + 1]), dtname)) for i in range(len(mags) - 1))
            for functional in (False, True):
                for fast in (False, True):
                    if fast and not decreasing:
                        continue
                    part["evaluations"] += 1
                    sig = f"renormalize:{dtname}:functional={functional}:fast={fast}:size=None:scalar"
                    case = {"kind": "list", "sig": sig, "dtype": dtname, "xs": [float(v).hex() for v in lst]}
                    try:
                        with np.errstate(all="ignore"):
                            r = renorm_call(fa, dtname, lst, functional, fast, None)
                            r2 = renorm_call(fa, dtname, [v for v in r if v != 0] or [t(0)], functional, False, None)
                    except Exception as ex:
                        add_violation(part, sig + ":raises", f"renormalize({lst}) raised {type(ex).__name__}: {ex}", case)
                        continue
                    if not all(np.isfinite(v) for v in r):
                        add_violation(part, sig + ":nonfinite", f"renormalize({lst}) = {r}", case)
                        continue
                    if fsum(r) != exact:
                        add_violation(part, sig + ":sum-changed", f"renormalize({lst}, functional={functional}, fast={fast}) = {r}: sum {float(fsum(r))!r} != {float(exact)!r}", case)
                    if fsum(r2) != exact:
                        add_violation(part, sig + ":sum-changed-pass2", f"second pass {r} -> {r2}", case)
                    nz = [float(v) for v in r2]
                    seen0 = False
                    okn = True
                    for i, v in enumerate(nz):
                        if v == 0:
                            seen0 = True
                            continue
                        if seen0:
                            okn = False
                        if i and nz[i - 1] != 0 and not (abs(nz[i - 1]) > abs(v) and bool(nonoverlap(np.float64(nz[i - 1]), np.float64(v), dtname))):
                            okn = False
                    if not okn:
                        add_violation(part, sig + ":not-normal-after-2-passes", f"renormalize twice {lst} -> {r} -> {r2}", case)
            if len(mags) >= 2:
                part["nontrivial"] += 1
    return part


def w_overlap_predicate(task):
    """the anchored utils.overlapping against the independent predicate on all float16 pairs of a row block."""
    fa = setup_repo_import()
    part = new_part()
    u = fa.utils
    v = np.arange(1 << 16, dtype=np.uint16).view(np.float16)
    v = v[np.isfinite(v)]
    rows = v[task["start"]::task["step"]]
    cols = v[:: task["cstep"]]
    for x in rows:
        for y in cols:
            part["evaluations"] += 1
            got = bool(u.overlapping(x, y))
            if x == y:
                want = True
            elif x == 0 or y == 0:
                want = False
            else:
                a, b = (x, y) if abs(x) >= abs(y) else (y, x)
                want = not bool(nonoverlap(np.float64(a), np.float64(b), "float16"))
            if got != want:
                sub = "subnormal" if (0 < abs(x) < 6.104e-05 or 0 < abs(y) < 6.104e-05) else "normal"
                add_violation(part, f"utils.overlapping:float16:{sub}", f"overlapping({x!r},{y!r}) = {got}, independent predicate says {want}", {"kind": "overlap", "dtype": "float16", "xs": [float(x).hex(), float(y).hex()]})
    part["nontrivial"] += len(rows)
    return part


def run(run):
    thorough = run.tier == "thorough"
    fa = setup_repo_import()
    A16 = alphabet("float16", 1 if thorough else 0, run.seed)
    run.counters["alphabet_float16"] = int(len(A16))
    Ab = A16.view(np.uint16).tolist()
    L = 5 if thorough else 4
    # pre-build traced evaluators in the parent
    for n in range(1, L + 1):
        for fast in (False, True):
            for size in (None, 1, 2, n):
                if size is None or size <= n:
                    traced_renorm(fa, "float16", n, fast, size)
    tasks = []
    for n in range(1, L + 1):
        per = 1 if n >= 4 else len(Ab)
        for i in range(0, len(Ab), per):
            tasks.append(dict(alphabet_bits=Ab if n < 5 else Ab[::2], n=n, rows=[i, i + per], eager_stride=1 if n <= 3 else (7 if n == 4 else 101)))
    run.map(MOD, "w_renorm16", tasks)
    tasks = []
    for dtname in ("float32", "float64"):
        A = alphabet(dtname, 0, run.seed)
        Abw = [int(x) for x in A.view(FMT[dtname]["ui"]).astype(np.uint64)]
        run.counters[f"alphabet_{dtname}"] = len(Abw)
        for n in (2, 3) if not thorough else (2, 3, 4):
            Ause = Abw if n <= 3 else Abw[::2]
            for i in range(len(Ause)):
                tasks.append(dict(dtype=dtname, alphabet_bits=Ause, n=n, rows=[i, i + 1]))
    run.map(MOD, "w_renorm_wide", tasks)
    tasks = []
    for dtname in ("float16", "float32", "float64"):
        A = alphabet(dtname, 0, run.seed)
        Abw = [int(x) for x in A.view(FMT[dtname]["ui"]).astype(np.uint64)]
        E = valid_expansions(dtname, A, 2)
        run.counters[f"expansions_{dtname}"] = len(E)
        step = 4
        for i in range(0, len(E), step):
            tasks.append(dict(dtype=dtname, alphabet_bits=Abw, rows=[i, i + step], stride=1 if thorough else 3, mul=True))
    run.map(MOD, "w_arith", tasks)
    tasks = []
    for dtname in ("float16", "float32", "float64"):
        for lo in range(24):
            tasks.append(dict(dtype=dtname, lo=lo, stride=24, maxlen=3, pair_stride=1 if thorough else 2))
    run.map(MOD, "w_arith_general", tasks)
    nrow = 256 if thorough else 96
    tasks = [dict(start=(i * 7 + run.seed) % 997, step=63488 // nrow * 16 + 1, cstep=3 if thorough else 11) for i in range(16)]
    run.map(MOD, "w_overlap_predicate", tasks)
    run.rule = (
        f"renormalize: all lists of length 1..{L} over a {len(A16)}-value float16 alphabet x functional(NumpyContext vectorised, traced+emitted "
        "NumPy graph) / eager x fast (decreasing inputs only) / safe x size None,1,2,len; second pass for normal form; float32/float64 lists of "
        "length <= 3 (4) with Fraction sums; add/subtract/multiply/square on all pairs of valid length<=2 expansions, and on arbitrary (overlapping, unordered, zero-containing) lists of length <= 3 (square) / <= 2 (binary operations) over a 12-value alphabet; utils.overlapping vs an "
        "independent predicate on float16 pair blocks; non-trivial = lists with >= 2 non-zero items"
    )
    run.exhaustive = True
    run.coverage_extra["exhaustive_scope"] = "complete Cartesian products of the stated alphabets (not all floats)"
    run.assumptions = ["float64 holds sums of <= 6 float16 values exactly", "non-overlap = |y| < ulp(x) (P-nonoverlapping), the notion the package's own overlapping() implements"]


def replay(case):
    fa = setup_repo_import()
    part = new_part()
    dtname = case["dtype"]
    t = DT[dtname]
    if case["kind"] == "list":
        xs = [t(float.fromhex(h)) for h in case["xs"]]
        if dtname == "float16":
            cols = [np.array([x], dtype=t) for x in xs]
            check_renorm(part, fa, dtname, cols)
        else:
            f = FMT[dtname]
            bits = [int(np.asarray(x).view(f["ui"])) for x in xs]
            p2 = w_renorm_wide(dict(dtype=dtname, alphabet_bits=bits, n=1, rows=[0, 0]))
            # direct single-list evaluation
            part = new_part()
            task_bits = bits
            A = np.array(task_bits, dtype=np.uint64).astype(f["ui"]).view(t)
            # emulate one list
            import itertools as _it

            sub = w_renorm_wide.__wrapped__ if hasattr(w_renorm_wide, "__wrapped__") else None
            lst = list(A)
            tk = dict(dtype=dtname, alphabet_bits=bits, n=len(bits), rows=[0, 1])
            part = w_renorm_wide(tk)
            want = [float(x) for x in xs]
            part["violations"] = [v for v in part["violations"] if [float.fromhex(h) for h in v["case"]["xs"]] == want]
    elif case["kind"] == "arith":
        f = FMT[dtname]
        e1 = [t(float.fromhex(h)) for h in case["e1"]]
        e2 = [t(float.fromhex(h)) for h in case["e2"]]
        ap = fa.apmath
        ctx = fa.utils.NumpyContext(t)
        op = case["op"]
        with np.errstate(all="ignore"):
            try:
                if op == "square":
                    r = ap.square(ctx, e1, functional=case["functional"])
                    exact = fsum(e1) ** 2
                else:
                    kw = {"size": case["size"]} if case.get("size") else {}
                    r = getattr(ap, op)(ctx, e1, e2, functional=case["functional"], **kw)
                    exact = {"add": fsum(e1) + fsum(e2), "subtract": fsum(e1) - fsum(e2), "multiply": fsum(e1) * fsum(e2)}[op]
                if op in ("add", "subtract"):
                    if fsum(r) != exact:
                        add_violation(part, f"{op}:{dtname}:functional={case['functional']}:inexact", f"{op} = {r}", case)
                elif not (abs(fsum(r) - exact) < lead_ulp(r, dtname)):
                    add_violation(part, f"{op}:{dtname}:functional={case['functional']}:error>=1ulp-of-leading-term", f"{op} = {r}", case)
            except Exception as ex:
                add_violation(part, f"{op}:{dtname}:functional={case['functional']}:raises", f"{type(ex).__name__}: {ex}", case)
    elif case["kind"] == "overlap":
        x, y = (t(float.fromhex(h)) for h in case["xs"])
        got = bool(fa.utils.overlapping(x, y))
        a, b = (x, y) if abs(x) >= abs(y) else (y, x)
        want = True if x == y else (False if (x == 0 or y == 0) else not bool(nonoverlap(np.float64(a), np.float64(b), dtname)))
        if got != want:
            add_violation(part, "utils.overlapping:float16", f"overlapping({x!r},{y!r}) = {got}", case)
    return [(v["sig"], v["msg"]) for v in part["violations"]]
