"""C10 — error-free transformations are exact.

float16: all ordered pairs (thorough) / all pairs of a 4096-value sub-alphabet (quick) for every
2Sum / Fast2Sum / Dekker variant, every finite value for every splitter variant.
float32: structured product x (binades x mantissas) x y = +-2^(e_x+D)*m', every D in [-p-3,p+3];
exact arithmetic in float64 (sums/products of float16/float32 operands are exactly representable
there: proved by exponent span, and asserted per chunk).  float64: same lattice, Python ints.
Oracle: s == RN(x+y) / h == RN(x*y) (RN = one correctly rounded cast from the exact value), and
s+t == x+y, h+l == x*y, xh+xl == x exactly; halves of the splitter fit ceil(p/2) bits.
Domain (decided per point from exact values): no intermediate overflow; for products the exact
product is a multiple of the smallest subnormal.
"""

from __future__ import annotations

from fractions import Fraction as F

import numpy as np

from mc import lattice
from mc.harness import add_violation, bump, new_part, setup_repo_import
from mc.oracle import FMT

PROPERTY = "C10"
LEVEL = "exploration"
MOD = "mc.checks.c10"
DT = {"float16": np.float16, "float32": np.float32, "float64": np.float64}
WIDE = {"float16": np.float64, "float32": np.float64}


class R:
    """Value wrapper so that the graph-building copies in algorithms.py (which call .reference())
    can be executed directly on NumPy arrays."""

    __array_priority__ = 1000

    def __init__(self, a):
        self.a = a

    def reference(self, *a, **k):
        return self

    def _u(self, o):
        return o.a if isinstance(o, R) else o

    def __add__(self, o):
        return R(self.a + self._u(o))

    def __radd__(self, o):
        return R(self._u(o) + self.a)

    def __sub__(self, o):
        return R(self.a - self._u(o))

    def __rsub__(self, o):
        return R(self._u(o) - self.a)

    def __mul__(self, o):
        return R(self.a * self._u(o))

    def __rmul__(self, o):
        return R(self._u(o) * self.a)

    def __neg__(self):
        return R(-self.a)

    def __gt__(self, o):
        return np.asarray(self.a) > self._u(o)


class RCtx:
    """The two Context methods algorithms.get_veltkamp_splitter_constant needs, executed eagerly in
    the dtype of the `like` operand."""

    def constant(self, v, like):
        return R(np.asarray(like.a).dtype.type(v))

    def select(self, c, a, b):
        a, b = (x.a if isinstance(x, R) else x for x in (a, b))
        return R(a if bool(c) else b)


def alg_constant(fa, t):
    """the splitter constant complex_log/complex_log1p use for dtype t (package's own derivation)"""
    return fa.algorithms.get_veltkamp_splitter_constant(RCtx(), R(t(np.finfo(t).max))).a


def sig_width(a):
    """Number of significant bits of each finite float (0 for zero): bit length of the odd part of
    the integer significand."""
    a = np.abs(np.asarray(a, dtype=np.float64))
    m, _ = np.frexp(a)
    mi = (m * (1 << 53)).astype(np.int64)  # exact: m has <= 53 bits
    low = mi & -mi
    w = np.zeros(a.shape, dtype=np.int64)
    nz = mi != 0
    w[nz] = 54 - np.log2(low[nz].astype(np.float64)).astype(np.int64) - 1
    return w


def variants_sum(fa, dtname):
    fpa = fa.floating_point_algorithms
    u = fa.utils
    ap = fa.apmath
    alg = fa.algorithms
    ctx = u.NumpyContext(DT[dtname])
    return {
        "fpa.add_2sum": (lambda x, y: fpa.add_2sum(ctx, x, y), "any", False),
        "fpa.add_2sum[fast]": (lambda x, y: fpa.add_2sum(ctx, x, y, fast=True), "absx>=absy", False),
        "fpa.add_2sum[fix_overflow]": (lambda x, y: fpa.add_2sum(ctx, x, y, fix_overflow=True), "any", True),
        "fpa.add_2sum[fast,fix_overflow]": (lambda x, y: fpa.add_2sum(ctx, x, y, fast=True, fix_overflow=True), "absx>=absy", True),
        "apmath.two_sum": (lambda x, y: ap.two_sum(ctx, x, y), "any", False),
        "apmath.two_sum[fix_overflow]": (lambda x, y: ap.two_sum(ctx, x, y, fix_overflow=True), "any", True),
        "apmath.quick_two_sum": (lambda x, y: ap.quick_two_sum(ctx, x, y), "absx>=absy", False),
        "utils.add_2sum": (lambda x, y: u.add_2sum(x, y), "any", False),
        "utils.add_fast2sum": (lambda x, y: u.add_fast2sum(x, y), "absx>=absy", False),
        "utils.sum_2sum[2]": (lambda x, y: u.sum_2sum([x, y]), "any", False),
        "algorithms.add_2sum": (lambda x, y: tuple(r.a for r in alg.add_2sum(R(x), R(y))), "any", False),
        "algorithms.add_2sum[fast]": (lambda x, y: tuple(r.a for r in alg.add_2sum(R(x), R(y), fast=True)), "absx>=absy", False),
        "algorithms.sum_2sum[2]": (lambda x, y: tuple(r.a for r in alg.sum_2sum([R(x), R(y)])), "any", False),
    }


def variants_prod(fa, dtname):
    fpa = fa.floating_point_algorithms
    u = fa.utils
    ap = fa.apmath
    alg = fa.algorithms
    t = DT[dtname]
    ctx = u.NumpyContext(t)
    p = FMT[dtname]["p"]
    C = t(2 ** ((p + 1) // 2) + 1)

    CA = alg_constant(fa, t)
    CU = u.get_veltkamp_splitter_constant(t)

    def alg_square(x, y):
        xh, xl = alg.split_veltkamp(None, CA, R(x))
        h, l = alg.square_dekker(None, R(x), xh, xl)
        return h.a, l.a

    # (callable, square_only, scale, fix_overflow)
    return {
        "fpa.mul_dekker": (lambda x, y: fpa.mul_dekker(ctx, x, y), False, True, False),
        "fpa.mul_dekker[noscale]": (lambda x, y: fpa.mul_dekker(ctx, x, y, scale=False), False, False, False),
        "fpa.mul_dekker[C,noscale]": (lambda x, y: fpa.mul_dekker(ctx, x, y, C=C, scale=False), False, False, False),
        "fpa.mul_dekker[fix_overflow]": (lambda x, y: fpa.mul_dekker(ctx, x, y, fix_overflow=True), False, True, True),
        "apmath.two_prod": (lambda x, y: ap.two_prod(ctx, x, y), False, True, False),
        "apmath.two_prod[fix_overflow]": (lambda x, y: ap.two_prod(ctx, x, y, fix_overflow=True), False, True, True),
        "utils.multiply_dekker": (lambda x, y: u.multiply_dekker(x, y, C=C), False, False, False),
        "utils.square_dekker": (lambda x, y: u.square_dekker(x, C=C), True, False, False),
        "utils.multiply_dekker[C=utils.get_veltkamp_splitter_constant]": (lambda x, y: u.multiply_dekker(x, y, C=CU), False, False, False),
        "algorithms.square_dekker": (alg_square, True, False, False),
    }


def variants_split(fa, dtname):
    fpa = fa.floating_point_algorithms
    u = fa.utils
    alg = fa.algorithms
    t = DT[dtname]
    ctx = u.NumpyContext(t)
    p = FMT[dtname]["p"]
    C = t(2 ** ((p + 1) // 2) + 1)
    CA = alg_constant(fa, t)
    CU = u.get_veltkamp_splitter_constant(t)
    return {
        "fpa.split_veltkamp": (lambda x: fpa.split_veltkamp(ctx, x), False),
        "fpa.split_veltkamp[C]": (lambda x: fpa.split_veltkamp(ctx, x, C), False),
        "fpa.split_veltkamp[scale]": (lambda x: fpa.split_veltkamp(ctx, x, scale=True), True),
        "fpa.split_veltkamp[C,scale]": (lambda x: fpa.split_veltkamp(ctx, x, C, scale=True), True),
        "apmath.split": (lambda x: fa.apmath.split(ctx, x), True),
        "utils.split_veltkamp[C]": (lambda x: u.split_veltkamp(x, C=C), False),
        "algorithms.split_veltkamp": (lambda x: tuple(r.a for r in alg.split_veltkamp(None, CA, R(x))), False),
        "utils.split_veltkamp[C=utils.get_veltkamp_splitter_constant]": (lambda x: u.split_veltkamp(x, C=CU), False),
    }


def report(part, sig, name, dtname, xs, ys, bad, what, extra=None):
    idx = np.flatnonzero(bad)
    if not len(idx):
        return
    part["counters"]["viol:" + sig] = part["counters"].get("viol:" + sig, 0) + int(len(idx)) - min(3, len(idx))
    for i in idx[:3]:
        x = xs[i]
        y = None if ys is None else ys[i]
        case = {"kind": "point", "variant": name, "dtype": dtname, "x": float(x).hex(), "y": None if y is None else float(y).hex()}
        msg = f"{name} [{dtname}] x={x!r} y={y!r}: {what}"
        if extra is not None:
            msg += " " + extra(i)
        add_violation(part, sig, msg, case)


def check_sum(part, fa, dtname, X, Y, only=None):
    t = DT[dtname]
    fi = np.finfo(t)
    Xw, Yw = X.astype(np.float64), Y.astype(np.float64)
    exact = Xw + Yw  # exact: asserted by the caller's exponent-span argument
    with np.errstate(all="ignore"):
        s_ref = exact.astype(t)
        z = s_ref - X
        inter_ok = np.isfinite(s_ref) & np.isfinite(z) & np.isfinite(s_ref - z) & np.isfinite(Y - z)
    for name, (fn, dom, fixo) in variants_sum(fa, dtname).items():
        if only and name != only:
            continue
        m = np.isfinite(s_ref) if fixo else inter_ok
        if dom == "absx>=absy":
            m = m & (np.abs(X) >= np.abs(Y))
        n = int(m.sum())
        if not n:
            continue
        part["evaluations"] += n
        bump(part, "skipped_out_of_domain", int((~m).sum()))
        with np.errstate(all="ignore"):
            try:
                s, tt = fn(X, Y)
            except Exception as e:
                add_violation(part, f"{name}:{dtname}:raises", f"{name} raised {type(e).__name__}: {e}", {"kind": "point", "variant": name, "dtype": dtname, "x": float(X[0]).hex(), "y": float(Y[0]).hex()})
                continue
        s = np.asarray(s)
        tt = np.asarray(tt)
        if s.dtype != t or tt.dtype != t:
            add_violation(part, f"{name}:{dtname}:dtype", f"{name} returned dtypes {s.dtype},{tt.dtype}", {"kind": "point", "variant": name, "dtype": dtname, "x": float(X[0]).hex(), "y": float(Y[0]).hex()})
            continue
        bad_s = m & ~((s == s_ref) | (np.isnan(s) & np.isnan(s_ref)))
        tot = s.astype(np.float64) + tt.astype(np.float64)
        if fixo:
            # where the intermediate z overflows the documented fallback is t = 0; exactness is only
            # promised where no intermediate overflows
            bad_t = m & inter_ok & ~(tot == exact)
            bad_f = m & ~inter_ok & ~(np.isfinite(tt))
            report(part, f"{name}:{dtname}:fix_overflow-nonfinite-t", name, dtname, X, Y, bad_f, "t not finite although x+y is finite and fix_overflow=True")
        else:
            bad_t = m & ~(tot == exact)
        report(part, f"{name}:{dtname}:s!=RN(x+y)", name, dtname, X, Y, bad_s, "s != RN(x+y)", lambda i: f"s={s[i]!r} RN={s_ref[i]!r}")
        report(part, f"{name}:{dtname}:s+t!=x+y", name, dtname, X, Y, bad_t, "s+t != x+y exactly", lambda i: f"s={s[i]!r} t={tt[i]!r} x+y={exact[i]!r}")
    part["nontrivial"] += int((inter_ok & (exact != s_ref.astype(np.float64))).sum())


def check_prod(part, fa, dtname, X, Y, only=None):
    t = DT[dtname]
    f = FMT[dtname]
    fi = np.finfo(t)
    p = f["p"]
    Xw, Yw = X.astype(np.float64), Y.astype(np.float64)
    fpa = fa.floating_point_algorithms
    ctx = fa.utils.NumpyContext(t)
    lowq = 2.0 ** (f["emin"] - p + 1)
    for name, (fn, square_only, scale, fixo) in variants_prod(fa, dtname).items():
        if only and name != only:
            continue
        Yv, Yvw = (X, Xw) if square_only else (Y, Yw)
        exact = Xw * Yvw  # exact in float64 for float16/float32 operands
        with np.errstate(all="ignore"):
            h_ref = exact.astype(t)
            # domain: exact product is a multiple of the smallest subnormal (error term representable)
            rep = np.floor(exact / lowq) == exact / lowq
            # no intermediate overflow: splitter products and partial products finite
            C = t(2 ** ((p + 1) // 2) + 1)
            if scale:
                xh, xl = fpa.split_veltkamp(ctx, X, scale=True)
                yh, yl = fpa.split_veltkamp(ctx, Yv, scale=True)
                split_ok = np.isfinite(xh) & np.isfinite(yh)
            else:
                split_ok = np.isfinite(C * X) & np.isfinite(C * Yv)
                g = C * X
                xh = g + (X - g)
                xl = X - xh
                g = C * Yv
                yh = g + (Yv - g)
                yl = Yv - yh
            big = float(fi.max)
            pp_ok = (np.abs(xh.astype(np.float64) * yh.astype(np.float64)) <= big) & (np.abs(xh.astype(np.float64) * yl.astype(np.float64)) <= big) & (np.abs(xl.astype(np.float64) * yh.astype(np.float64)) <= big)
            dom = np.isfinite(h_ref) & rep & split_ok & pp_ok
        m = np.isfinite(h_ref) & rep & (split_ok if fixo else dom)
        n = int(m.sum())
        if not n:
            continue
        part["evaluations"] += n
        bump(part, "skipped_out_of_domain", int((~m).sum()))
        with np.errstate(all="ignore"):
            try:
                h, l = fn(X, Y)
            except Exception as e:
                add_violation(part, f"{name}:{dtname}:raises", f"{name} raised {type(e).__name__}: {e}", {"kind": "point", "variant": name, "dtype": dtname, "x": float(X[0]).hex(), "y": float(Y[0]).hex()})
                continue
        h, l = np.asarray(h), np.asarray(l)
        if h.dtype != t or l.dtype != t:
            add_violation(part, f"{name}:{dtname}:dtype", f"{name} returned dtypes {h.dtype},{l.dtype}", {"kind": "point", "variant": name, "dtype": dtname, "x": float(X[0]).hex(), "y": float(Y[0]).hex()})
            continue
        bad_h = m & ~(h == h_ref)
        tot = h.astype(np.float64) + l.astype(np.float64)  # exact: both are multiples of lowq below 2**emax
        bad_l = m & dom & ~(tot == exact)
        report(part, f"{name}:{dtname}:h!=RN(x*y)", name, dtname, X, Yv, bad_h, "h != RN(x*y)", lambda i: f"h={h[i]!r} RN={h_ref[i]!r}")
        report(part, f"{name}:{dtname}:h+l!=x*y", name, dtname, X, Yv, bad_l, "h+l != x*y exactly", lambda i: f"h={h[i]!r} l={l[i]!r} x*y={exact[i]!r}")
        if fixo:
            bad_f = m & ~dom & ~np.isfinite(l)
            report(part, f"{name}:{dtname}:fix_overflow-nonfinite-l", name, dtname, X, Yv, bad_f, "l not finite although x*y is finite and fix_overflow=True")
        part["nontrivial"] += int((dom & (exact != h_ref.astype(np.float64))).sum()) if name == "fpa.mul_dekker" else 0


def check_split(part, fa, dtname, X, only=None):
    t = DT[dtname]
    f = FMT[dtname]
    p = f["p"]
    half = (p + 1) // 2
    C = t(2 ** half + 1)
    Xw = X.astype(np.float64) if dtname != "float64" else X
    for name, (fn, scaled) in variants_split(fa, dtname).items():
        if only and name != only:
            continue
        with np.errstate(all="ignore"):
            m = np.isfinite(X) if scaled else np.isfinite(C * X)
        n = int(m.sum())
        if not n:
            continue
        part["evaluations"] += n
        with np.errstate(all="ignore"):
            try:
                xh, xl = fn(X)
            except Exception as e:
                add_violation(part, f"{name}:{dtname}:raises", f"{name} raised {type(e).__name__}: {e}", {"kind": "point", "variant": name, "dtype": dtname, "x": float(X[0]).hex(), "y": None})
                continue
        xh, xl = np.asarray(xh), np.asarray(xl)
        if dtname == "float64":
            # exact test without a wider type: xh + xl == x exactly iff Fast2Sum-style residuals vanish;
            # use Python ints on the (few) float64 points instead
            bad_sum = np.zeros(X.shape, bool)
            for i in np.flatnonzero(m):
                if not (np.isfinite(xh[i]) and np.isfinite(xl[i])) or F(float(xh[i])) + F(float(xl[i])) != F(float(X[i])):
                    bad_sum[i] = True
        else:
            bad_sum = m & ~((xh.astype(np.float64) + xl.astype(np.float64)) == Xw)
        wh, wl = sig_width(xh), sig_width(xl)
        bad_w = m & ~bad_sum & ((wh > half) | (wl > half))
        report(part, f"{name}:{dtname}:xh+xl!=x", name, dtname, X, None, bad_sum, "xh+xl != x exactly", lambda i: f"xh={xh[i]!r} xl={xl[i]!r}")
        report(part, f"{name}:{dtname}:halves-too-wide", name, dtname, X, None, bad_w, f"a half needs more than {half} bits", lambda i: f"xh={xh[i]!r} ({wh[i]} bits) xl={xl[i]!r} ({wl[i]} bits)")
    part["nontrivial"] += int((sig_width(X) > half).sum())


def check_tripleword(part, fa, dtname, X):
    t = DT[dtname]
    fpa = fa.floating_point_algorithms
    ctx = fa.utils.NumpyContext(t)
    C2 = {"float16": 2 ** 8 + 1, "float32": 2 ** 20 + 1, "float64": 2 ** 48 + 1}[dtname]
    for scale in (False, True):
        with np.errstate(all="ignore"):
            m = np.isfinite(X) if scale else np.isfinite(t(C2) * X)
            try:
                a, b, c = fpa.split_tripleword(ctx, X, scale=scale)
            except Exception as e:
                add_violation(part, f"fpa.split_tripleword:{dtname}:raises", f"{type(e).__name__}: {e}", {"kind": "point", "variant": "fpa.split_tripleword", "dtype": dtname, "x": float(X[0]).hex(), "y": None})
                continue
        part["evaluations"] += int(m.sum())
        if dtname == "float64":
            bad = np.zeros(X.shape, bool)
            for i in np.flatnonzero(m):
                if not all(np.isfinite(v[i]) for v in (a, b, c)) or F(float(a[i])) + F(float(b[i])) + F(float(c[i])) != F(float(X[i])):
                    bad[i] = True
        else:
            bad = m & ~((a.astype(np.float64) + b.astype(np.float64) + c.astype(np.float64)) == X.astype(np.float64))
        report(part, f"fpa.split_tripleword[scale={scale}]:{dtname}:sum!=x", "fpa.split_tripleword", dtname, X, None, bad, f"hi+lo+rest != x (scale={scale})", lambda i: f"{a[i]!r},{b[i]!r},{c[i]!r}")


# ------------------------------------------------------------------ workers


def finite16():
    v = np.arange(1 << 16, dtype=np.uint16).view(np.float16)
    return v[np.isfinite(v)]


def alphabet16(n, seed):
    v = finite16()
    base = v[(np.arange(len(v)) % max(1, len(v) // n)) == (seed % max(1, len(v) // n))]
    pw = 2.0 ** np.arange(-24, 16)
    pw = np.concatenate([pw, -pw]).astype(np.float16)
    nb = lattice.neighbours(pw, np.float16, 1)
    sp = lattice.specials(np.float16, with_inf=False)
    bits = np.unique(np.concatenate([base, nb, sp]).view(np.uint16))
    return bits.view(np.float16)


def w_pairs16(task):
    fa = setup_repo_import()
    part = new_part()
    A = np.array(task["ybits"], dtype=np.uint16).view(np.float16) if "ybits" in task else finite16()
    rows = np.array(task["xbits"], dtype=np.uint16).view(np.float16)
    X = np.repeat(rows, len(A))
    Y = np.tile(A, len(rows))
    if task["op"] == "sum":
        check_sum(part, fa, "float16", X, Y)
    else:
        check_prod(part, fa, "float16", X, Y)
    part["samples"].append({"op": task["op"], "dtype": "float16", "x": float(rows[0]).hex(), "n_y": int(len(A))})
    return part


def structured_pairs(dtname, xs, seed, dmax):
    """y = +-2^(e_x + D) * m' for every D in [-dmax, dmax] and a small set of m'."""
    t = DT[dtname]
    f = FMT[dtname]
    ms = lattice.mantissa_patterns(t, 6, seed)
    w = f["p"] - 1
    mfac = np.array([1.0 + m / float(1 << w) for m in ms])
    mant, e = np.frexp(xs.astype(np.float64))
    X, Y = [], []
    for D in range(-dmax, dmax + 1):
        for mf in mfac:
            for sgn in (1.0, -1.0):
                with np.errstate(all="ignore"):
                    y = (sgn * mf * np.ldexp(1.0, e - 1 + D)).astype(t)
                X.append(xs)
                Y.append(y)
    X = np.concatenate(X)
    Y = np.concatenate(Y)
    ok = np.isfinite(Y)
    return X[ok], Y[ok]


def w_struct(task):
    fa = setup_repo_import()
    part = new_part()
    dtname = task["dtype"]
    t = DT[dtname]
    f = FMT[dtname]
    xs = np.array(task["xbits"], dtype=np.uint64).astype(f["ui"]).view(t)
    if dtname == "float32":
        X, Y = structured_pairs(dtname, xs, task["seed"], f["p"] + 3)
        # exponent-span argument: |D| <= p+3 = 27 -> x+y spans <= 24+27+1 = 52 bits <= 53: exact in float64
        check_sum(part, fa, dtname, X, Y)
        check_prod(part, fa, dtname, X, Y)
    else:
        X, Y = structured_pairs(dtname, xs, task["seed"], f["p"] + 3)
        check64(part, fa, X, Y)
    check_split(part, fa, dtname, xs)
    check_tripleword(part, fa, dtname, xs)
    part["samples"].append({"structured": dtname, "x": float(xs[0]).hex(), "pairs": int(len(X))})
    return part


def check64(part, fa, X, Y):
    """float64: exact comparison by Python integers (Fraction)."""
    t = np.float64
    fi = np.finfo(t)
    u = fa.utils
    fpa = fa.floating_point_algorithms
    ctx = u.NumpyContext(t)
    from mc.oracle import rn

    with np.errstate(all="ignore"):
        results = {
            "fpa.add_2sum": fpa.add_2sum(ctx, X, Y),
            "fpa.add_2sum[fast]": fpa.add_2sum(ctx, X, Y, fast=True),
            "utils.add_2sum": u.add_2sum(X, Y),
            "fpa.mul_dekker": fpa.mul_dekker(ctx, X, Y),
            "utils.multiply_dekker": u.multiply_dekker(X, Y, C=t(2 ** 27 + 1)),
        }
        s0 = X + Y
        z0 = s0 - X
        ok_sum = np.isfinite(s0) & np.isfinite(z0) & np.isfinite(s0 - z0) & np.isfinite(Y - z0)
        h0 = X * Y
        C = t(2 ** 27 + 1)
        ok_mul = np.isfinite(h0) & np.isfinite(C * X) & np.isfinite(C * Y) & (np.abs(h0) < fi.max / 4)
    lowq = F(2) ** (-1074)
    stride = max(1, len(X) // 6000)
    for i in range(0, len(X), stride):
        x, y = X[i], Y[i]
        fx, fy = F(float(x)), F(float(y))
        for name, (a, b) in results.items():
            issum = "sum" in name
            if issum:
                if not ok_sum[i] or ("fast" in name and abs(x) < abs(y)):
                    continue
                exact = fx + fy
            else:
                exact = fx * fy
                if not ok_mul[i] or (exact / lowq).denominator != 1:
                    continue
                if name == "utils.multiply_dekker" and not np.isfinite(b[i]):
                    continue
            part["evaluations"] += 1
            want = rn(exact, "float64")
            case = {"kind": "point", "variant": name, "dtype": "float64", "x": float(x).hex(), "y": float(y).hex()}
            if not (a[i] == want):
                add_violation(part, f"{name}:float64:{'s!=RN(x+y)' if issum else 'h!=RN(x*y)'}", f"{name} x={x!r} y={y!r}: high word {a[i]!r} != RN {want!r}", case)
            elif not (np.isfinite(b[i]) and F(float(a[i])) + F(float(b[i])) == exact):
                add_violation(part, f"{name}:float64:{'s+t!=x+y' if issum else 'h+l!=x*y'}", f"{name} x={x!r} y={y!r}: {a[i]!r}+{b[i]!r} != exact", case)
            if exact != F(float(want)):
                part["nontrivial"] += 1


def w_split16(task):
    fa = setup_repo_import()
    part = new_part()
    X = finite16()
    check_split(part, fa, "float16", X)
    check_tripleword(part, fa, "float16", X)
    part["samples"].append({"split": "all finite float16", "n": int(len(X))})
    return part


# ------------------------------------------------------------------ other routes to the same functions
# The bulk above calls the building blocks on arrays through a NumpyContext (the constants are then picked directly from
# the context's dtype).  Two more routes reach the same code through different branches: (a) traced with a Context,
# rewritten for NumPy and exec'd -- constants for all three float types + select on `largest` (what the algorithms that
# use these blocks get); (b) NumPy scalars through a NumpyContext.  Both are compared bit for bit with the array route
# (which the oracle judges) on the same points.  (c) one NumpyContext shared by several float types in sequence.

ROUTE_VARIANTS = {
    "fpa.add_2sum": (2, lambda fpa, ap: (lambda ctx, x, y: fpa.add_2sum(ctx, x, y))),
    "fpa.add_2sum[fast]": (2, lambda fpa, ap: (lambda ctx, x, y: fpa.add_2sum(ctx, x, y, fast=True))),
    "fpa.add_2sum[fix_overflow]": (2, lambda fpa, ap: (lambda ctx, x, y: fpa.add_2sum(ctx, x, y, fix_overflow=True))),
    "fpa.split_veltkamp": (1, lambda fpa, ap: (lambda ctx, x: fpa.split_veltkamp(ctx, x))),
    "fpa.split_veltkamp[scale]": (1, lambda fpa, ap: (lambda ctx, x: fpa.split_veltkamp(ctx, x, scale=True))),
    "fpa.mul_dekker": (2, lambda fpa, ap: (lambda ctx, x, y: fpa.mul_dekker(ctx, x, y))),
    "fpa.mul_dekker[noscale]": (2, lambda fpa, ap: (lambda ctx, x, y: fpa.mul_dekker(ctx, x, y, scale=False))),
    "fpa.mul_dekker[fix_overflow]": (2, lambda fpa, ap: (lambda ctx, x, y: fpa.mul_dekker(ctx, x, y, fix_overflow=True))),
    "apmath.two_sum": (2, lambda fpa, ap: (lambda ctx, x, y: ap.two_sum(ctx, x, y))),
    "apmath.two_prod": (2, lambda fpa, ap: (lambda ctx, x, y: ap.two_prod(ctx, x, y))),
    "apmath.split": (1, lambda fpa, ap: (lambda ctx, x: ap.split(ctx, x))),
    "fpa.split_tripleword": (1, lambda fpa, ap: (lambda ctx, x: fpa.split_tripleword(ctx, x))),
}
_TRACED = {}


def traced_variant(fa, name, dtname):
    key = (name, dtname)
    if key not in _TRACED:
        from mc.harness import quiet
        import functional_algorithms.apmath_algorithms as apa

        nargs, mk = ROUTE_VARIANTS[name]
        body = mk(fa.floating_point_algorithms, fa.apmath)
        if nargs == 1:

            def f(ctx, x):
                return body(ctx, x)

        else:

            def f(ctx, x, y):
                return body(ctx, x, y)

        try:
            with quiet():
                ctx = fa.Context(paths=[apa])
                g = ctx.trace(f, *([DT[dtname]] * nargs))
                g = g.rewrite(fa.targets.numpy, fa.rewrite, fa.rewrite)
                _TRACED[key] = fa.targets.numpy.as_function(g, debug=0, force_cast_arguments=False)
        except Exception as e:
            _TRACED[key] = e
    return _TRACED[key]


def same_arrays(a, b):
    a, b = np.asarray(a), np.asarray(b)
    if a.shape != b.shape:
        a, b = np.broadcast_arrays(a, b)
    return a.dtype == b.dtype and bool(np.all((a.view(FMT[a.dtype.name]["ui"]) == b.view(FMT[b.dtype.name]["ui"])) | (np.isnan(a) & np.isnan(b))))


def w_routes(task):
    fa = setup_repo_import()
    part = new_part()
    dtname = task["dtype"]
    t = DT[dtname]
    f = FMT[dtname]
    A = np.array(task["bits"], dtype=np.uint64).astype(f["ui"]).view(t)
    fpa, ap, u = fa.floating_point_algorithms, fa.apmath, fa.utils
    X2, Y2 = np.repeat(A, len(A)), np.tile(A, len(A))
    for name, (nargs, mk) in ROUTE_VARIANTS.items():
        body = mk(fpa, ap)
        args = (A,) if nargs == 1 else (X2, Y2)
        try:
            with np.errstate(all="ignore"):
                ref = [np.asarray(o) for o in body(u.NumpyContext(t), *args)]
        except Exception as e:
            bump(part, f"array_route_raises:{name}:{type(e).__name__}")
            continue
        # (a) traced
        fT = traced_variant(fa, name, dtname)
        if isinstance(fT, Exception):
            bump(part, f"traced_route_unavailable:{name}:{type(fT).__name__}")
        else:
            part["evaluations"] += len(args[0])
            try:
                with np.errstate(all="ignore"):
                    got = [np.asarray(o) for o in fT(*args)]
                bad = None
                for k_, (g_, r_) in enumerate(zip(got, ref)):
                    g_, r_ = np.broadcast_arrays(g_, r_)
                    neq = ~((g_ == r_) | (np.isnan(g_) & np.isnan(r_))) | (np.signbit(g_) != np.signbit(r_)) & (g_ == 0) | (g_.dtype != r_.dtype)
                    if np.any(neq):
                        bad = (k_, int(np.flatnonzero(neq)[0]))
                        break
                if bad is not None:
                    k_, i = bad
                    pt = [a[i] for a in args]
                    add_violation(part, f"{name}:{dtname}:traced-route-differs-from-NumpyContext-route", f"{name}{tuple(map(repr, pt))}: output {k_} of the traced+emitted NumPy function = {np.broadcast_to(got[k_], args[0].shape)[i]!r}, NumpyContext arrays give {np.broadcast_to(ref[k_], args[0].shape)[i]!r}", {"kind": "route", "variant": name, "dtype": dtname, "route": "traced", "x": float(pt[0]).hex(), "y": float(pt[1]).hex() if nargs == 2 else None})
                else:
                    part["nontrivial"] += len(args[0])
            except Exception as e:
                add_violation(part, f"{name}:{dtname}:traced-route-raises", f"emitted NumPy code of {name} raised {type(e).__name__}: {e}", {"kind": "route", "variant": name, "dtype": dtname, "route": "traced", "x": float(A[0]).hex(), "y": float(A[0]).hex() if nargs == 2 else None})
        # (b) scalars, every 7th point
        idx = range(0, len(args[0]), 7)
        ctxs = u.NumpyContext(t)
        for i in idx:
            part["evaluations"] += 1
            try:
                with np.errstate(all="ignore"):
                    got = body(ctxs, *[a[i] for a in args])
            except Exception as e:
                add_violation(part, f"{name}:{dtname}:scalar-route-raises", f"{name} on NumPy scalars raised {type(e).__name__}: {e}", {"kind": "route", "variant": name, "dtype": dtname, "route": "scalar", "x": float(args[0][i]).hex(), "y": float(args[1][i]).hex() if nargs == 2 else None})
                break
            ok = all(np.asarray(g_).dtype == np.dtype(t) and (np.asarray(g_).tobytes() == np.broadcast_to(r_, args[0].shape)[i].tobytes() or (np.isnan(g_) and np.isnan(np.broadcast_to(r_, args[0].shape)[i]))) for g_, r_ in zip(got, ref))
            if not ok:
                add_violation(part, f"{name}:{dtname}:scalar-route-differs-from-array-route", f"{name}{tuple(repr(a[i]) for a in args)} on scalars = {got}, on arrays {[np.broadcast_to(r_, args[0].shape)[i] for r_ in ref]}", {"kind": "route", "variant": name, "dtype": dtname, "route": "scalar", "x": float(args[0][i]).hex(), "y": float(args[1][i]).hex() if nargs == 2 else None})
                break
    part["samples"].append({"routes": dtname, "points": int(len(A))})
    return part


def w_shared_context(task):
    """one NumpyContext used for several float types in sequence: results equal to those of a fresh context"""
    fa = setup_repo_import()
    part = new_part()
    fpa, ap, u = fa.floating_point_algorithms, fa.apmath, fa.utils
    pts = [0.1, 1.0, -3.0, 1000.5, -0.00123, 65000.0, 1.0009765625, 2.5e-5]
    import itertools

    for name, (nargs, mk) in ROUTE_VARIANTS.items():
        body = mk(fpa, ap)
        for d0 in ("float16", "float32", "float64"):
            for seq in itertools.product(("float16", "float32", "float64"), repeat=task["length"]):
                ctx = u.NumpyContext(DT[d0])
                for step, dtname in enumerate(seq):
                    t = DT[dtname]
                    xs = np.array(pts, dtype=t)
                    args = (xs,) if nargs == 1 else (xs, xs[::-1].copy())
                    part["evaluations"] += 1
                    try:
                        with np.errstate(all="ignore"):
                            got = [np.asarray(o) for o in body(ctx, *args)]
                            ref = [np.asarray(o) for o in body(u.NumpyContext(DT[d0]), *args)]
                    except Exception as e:
                        bump(part, f"shared_context_raises:{type(e).__name__}")
                        break
                    if step:
                        part["nontrivial"] += 1
                    if not all(g_.dtype == r_.dtype and g_.tobytes() == r_.tobytes() for g_, r_ in zip(got, ref)):
                        add_violation(part, f"{name}:shared-context:{dtname}-after-{'+'.join(seq[:step]) or 'nothing'}:differs-from-fresh-context", f"NumpyContext({d0}) used for {seq[:step + 1]}: {name} on {dtname} gives {got} but a fresh context {ref}", {"kind": "shared", "variant": name, "d0": d0, "seq": list(seq)})
                        break
    part["samples"].append({"shared_context": "all dtype sequences", "length": task["length"]})
    return part



def run(run):
    thorough = run.tier == "thorough"
    v = finite16()
    if thorough:
        A = v
        ybits = None
    else:
        A = alphabet16(4096, run.seed)
        ybits = A.view(np.uint16).tolist()
    run.counters["float16_alphabet"] = int(len(A))
    xb = A.view(np.uint16).tolist()
    tasks = []
    rows_sum = 32 if thorough else 64
    rows_prod = 8 if thorough else 32
    for op, rows in (("sum", rows_sum), ("prod", rows_prod)):
        for i in range(0, len(xb), rows):
            tk = dict(op=op, xbits=xb[i:i + rows])
            if ybits is not None:
                tk["ybits"] = ybits
            tasks.append(tk)
    tasks.append("split")
    parts_tasks = [t for t in tasks if t != "split"]
    run.map(MOD, "w_split16", [dict()])
    run.map(MOD, "w_pairs16", parts_tasks, chunksize=4)
    tasks = []
    for dtname, nm in (("float32", 16 if thorough else 6), ("float64", 8 if thorough else 4)):
        lat = lattice.binade_lattice(DT[dtname], mantissas=nm, estride=1 if thorough else (3 if dtname == "float32" else 16), ephase=run.seed % 3, seed=run.seed)
        b = [int(x) for x in lat.view(FMT[dtname]["ui"]).astype(np.uint64)]
        nsh = 64
        for i in range(nsh):
            if b[i::nsh]:
                tasks.append(dict(dtype=dtname, xbits=b[i::nsh], seed=run.seed))
    run.map(MOD, "w_struct", tasks)
    # routes and shared contexts
    rt = []
    A16 = alphabet16(160 if not thorough else 400, run.seed)
    rt.append(dict(dtype="float16", bits=[int(b) for b in A16.view(np.uint16)]))
    for dtname in ("float32", "float64"):
        lat = lattice.binade_lattice(DT[dtname], mantissas=3, estride=(8 if dtname == "float32" else 64) if not thorough else (3 if dtname == "float32" else 24), ephase=run.seed % 3, seed=run.seed)
        rt.append(dict(dtype=dtname, bits=[int(x) for x in lat.view(FMT[dtname]["ui"]).astype(np.uint64)]))
    run.map(MOD, "w_routes", rt)
    run.map(MOD, "w_shared_context", [dict(length=2), dict(length=3)] if thorough else [dict(length=2)])
    run.rule = (
        ("all ordered pairs of finite float16 values" if thorough else f"all ordered pairs of a {len(A)}-value float16 sub-alphabet (every ~15th pattern by seed, all powers of two +-1 ULP, specials)")
        + " for 13 2Sum/Fast2Sum variants and 9 Dekker variants (fpa, apmath, utils, algorithms.py copies); every finite float16 through 7 splitter variants and "
        "the tripleword splitter; float32/float64: binade x mantissa lattice for x, y = +-2^(e_x+D)*m' for every D in [-p-3,p+3] x 6 mantissas; "
        "12 fpa/apmath variants through two more routes (traced+emitted NumPy function; NumPy scalars) bit-compared with the array route on all pairs of a small alphabet; "
        "all dtype sequences on one shared NumpyContext compared with fresh contexts; "
        "non-trivial = in-domain pairs whose sum/product is inexact (non-zero error term)"
    )
    run.exhaustive = True
    run.coverage_extra["exhaustive_scope"] = "float16 complete in the thorough tier; sub-alphabet product in quick; float32/64 on the stated lattice"
    run.assumptions = ["float64 holds sums and products of float16/float32 operands exactly within the stated exponent spans", "NumPy casts float64->float16/32 round to nearest even"]


def replay(case):
    fa = setup_repo_import()
    part = new_part()
    if case.get("kind") == "shared":
        p2 = w_shared_context(dict(length=len(case["seq"])))
        return [(v["sig"], v["msg"]) for v in p2["violations"] if v["case"].get("variant") == case["variant"]]
    dtname = case["dtype"]
    t = DT[dtname]
    if case.get("kind") == "route":
        pts = [float.fromhex(case["x"])] + ([float.fromhex(case["y"])] if case.get("y") else [])
        b = np.unique(np.array(pts + [1.0], dtype=t).view(FMT[dtname]["ui"])).astype(np.uint64)
        p2 = w_routes(dict(dtype=dtname, bits=[int(x) for x in b]))
        return [(v["sig"], v["msg"]) for v in p2["violations"] if v["case"].get("variant") == case["variant"]]
    X = np.array([float.fromhex(case["x"])], dtype=t)
    name = case["variant"]
    if case["y"] is None:
        if name == "fpa.split_tripleword":
            check_tripleword(part, fa, dtname, X)
        else:
            check_split(part, fa, dtname, X, only=name)
    else:
        Y = np.array([float.fromhex(case["y"])], dtype=t)
        if dtname == "float64":
            check64(part, fa, X, Y)
        elif name in variants_sum(fa, dtname):
            check_sum(part, fa, dtname, X, Y, only=name)
        else:
            check_prod(part, fa, dtname, X, Y, only=name)
    return [(v["sig"], v["msg"]) for v in part["violations"]]
