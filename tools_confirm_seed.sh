#!/bin/sh
# usage: tools_confirm_seed.sh <mutation dir with patch.diff demo.py> <seed name> "<check ids>" "<test files relative to repo root>"
# 1) demo passes on a clean export of /repo HEAD, 2) fails with the patch, 3) the named tests pass with the patch, 4) run the checks against the patched copy
M=$(readlink -f "$1"); NAME="$2"; IDS="$3"; TESTS="$4"
D=$(mktemp -d /var/tmp/seed_XXXXXX)
git -C /repo archive HEAD | tar -x -C "$D"
# the demonstration is run in the sub-agent's own worktree (demos check that the package resolves there);
# the worktree must be idle (agent finished) and clean
WT=$(dirname $(dirname "$M"))
REL=$(realpath --relative-to="$WT" "$M")
git -C "$WT" checkout -q -- . 2>/dev/null
( cd "$WT" && /venv/bin/python -W ignore "$REL/demo.py" > "$D/_clean.out" 2>&1 ); RC_CLEAN=$?
git -C "$WT" apply --whitespace=nowarn "$M/patch.diff" || { echo "PATCH DOES NOT APPLY IN WORKTREE"; }
( cd "$WT" && /venv/bin/python -W ignore "$REL/demo.py" > "$D/_mut.out" 2>&1 ); RC_MUT=$?
git -C "$WT" checkout -q -- .
( cd "$D" && git init -q . && git apply --whitespace=nowarn "$M/patch.diff" ) || { echo "PATCH DOES NOT APPLY"; rm -rf "$D"; exit 2; }
echo "demo: clean rc=$RC_CLEAN mutated rc=$RC_MUT"
tail -3 "$D/_mut.out" | cut -c1-200
TRES="(not run)"
if [ -n "$TESTS" ]; then
  TRES=$( cd "$D" && PYTHONPATH="$D" /venv/bin/python -m pytest -q -p no:cacheprovider --timeout=900 $TESTS 2>&1 | tail -1 )
fi
echo "tests with patch: $TRES"
cd /verif
RES=""
for id in $IDS; do
  out=$(FA_REPO="$D" VERIF_NO_EVIDENCE=1 timeout 2400 ./check $id --tier quick 2>&1)
  rc=$?
  line="$id rc=$rc $(echo "$out" | grep "^$id tier" | cut -c1-120)"
  echo "== $line"
  echo "$out" | grep "signature" | sort | uniq -c | sort -rn | head -5
  RES="$RES$line; "
done
mkdir -p /verif/seeded/$NAME
cp "$M/patch.diff" "$M/demo.py" /verif/seeded/$NAME/
[ -f "$M/notes.md" ] && cp "$M/notes.md" /verif/seeded/$NAME/notes.md
cat > /verif/seeded/$NAME/confirm.txt <<EOT
demo_clean_rc=$RC_CLEAN
demo_mutated_rc=$RC_MUT
tests=$TESTS
tests_result=$TRES
checks=$RES
EOT
rm -rf "$D"
