"""C19 — sample generators cover exactly the requested range, ULP-uniformly.

Enumerated: real_samples over the complete product  size x dtype x (min_value, max_value) x flags;
complex / pair / triple generators against the Cartesian product of the 1-D calls.
Oracle: structural predicates on the returned arrays (ordinal arithmetic from mc.oracle).
Sizes below the documented minimum (6) are outside the domain.
"""

from __future__ import annotations

import itertools

import numpy as np

from mc.harness import add_violation, bump, new_part, setup_repo_import
from mc.oracle import FMT, ordinal

PROPERTY = "C19"
LEVEL = "exploration"
MOD = "mc.checks.c19"
DT = {"float16": np.float16, "float32": np.float32, "float64": np.float64}

FLAGS = ("include_infinity", "include_zero", "include_subnormal", "include_nan", "include_huge", "nonnegative", "unique")


def bound_values(dtname):
    t = DT[dtname]
    fi = np.finfo(t)
    pos = [fi.max, t(2), t(1), fi.smallest_normal, t(3) * fi.smallest_subnormal, fi.smallest_subnormal, t(0)]
    vals = [None] + pos + [-v for v in pos]
    return vals


def key(v):
    return "None" if v is None else float(v).hex()


def unkey(s, t):
    return None if s == "None" else t(float.fromhex(s))


def cls_bound(v, t):
    if v is None:
        return "None"
    fi = np.finfo(t)
    if v == 0:
        return "-0" if np.signbit(v) else "+0"
    a = abs(v)
    s = "neg" if v < 0 else "pos"
    if a < fi.smallest_normal:
        return s + "-subnormal"
    if a == fi.max:
        return s + "-largest"
    return s + "-normal"


def adjusted_bounds(t, mn, mx, include_subnormal):
    """The documented adjustment: defaults, and a subnormal bound moved to zero or to the smallest
    normal when subnormals are excluded.  Returns (lo, hi) as floats of type t, or None if min > max."""
    fi = np.finfo(t)
    min_pos = fi.smallest_subnormal if include_subnormal else fi.smallest_normal
    if mn is None:
        lo = -fi.max if (mx is not None and mx < 0) else min_pos
    else:
        lo = t(mn)
    if mx is None:
        hi = -min_pos if (mn is not None and mn < 0) else fi.max
    else:
        hi = t(mx)
    if not include_subnormal:
        if lo != 0 and abs(lo) < min_pos:
            lo = -t(min_pos) if lo < 0 else t(0)
        if hi != 0 and abs(hi) < min_pos:
            hi = -t(0) if hi < 0 else t(min_pos)
    return t(lo), t(hi)


def judge_real(fa, part, dtname, size, mn, mx, flags):
    t = DT[dtname]
    fi = np.finfo(t)
    u = fa.utils
    kw = dict(zip(FLAGS, flags))
    user_bounds = mn is not None or mx is not None
    case = {"kind": "real", "dtype": dtname, "size": int(size), "min": key(mn), "max": key(mx), "flags": [bool(f) for f in flags]}
    bcls = f"min={cls_bound(mn, t)},max={cls_bound(mx, t)}"
    lo, hi = adjusted_bounds(t, mn, mx, kw["include_subnormal"])
    if user_bounds and lo > hi:
        bump(part, "skipped_min_greater_than_max")
        return
    part["evaluations"] += 1
    try:
        with np.errstate(all="ignore"):
            r = u.real_samples(size, dtype=t, min_value=mn, max_value=mx, **kw)
    except Exception as e:
        add_violation(part, f"real_samples:{dtname}:raises:{type(e).__name__}:{bcls}", f"real_samples(size={size}, min={mn!r}, max={mx!r}, {kw}) raised {type(e).__name__}: {str(e)[:200]}", case)
        return
    def viol(what, detail=""):
        add_violation(part, f"real_samples:{dtname}:{what}:{bcls}", f"real_samples(size={size}, min={mn!r}, max={mx!r}, {kw}): {what} {detail} -> {r[:8]!r}...{r[-4:]!r} (len {len(r)})", case)

    if not (isinstance(r, np.ndarray) and r.dtype == t and r.ndim == 1 and r.size >= 1):
        viol("bad-array", f"type={type(r).__name__} dtype={getattr(r, 'dtype', None)}")
        return
    part["nontrivial"] += 1 if r.size > 2 else 0
    nan = np.isnan(r)
    nan_allowed = kw["include_nan"] and not user_bounds
    if nan.any() and not nan_allowed:
        viol("unexpected-nan")
        return
    if nan_allowed and not nan.any():
        viol("nan-requested-but-absent")
    v = r[~nan]
    if nan.any() and not nan[-1]:
        viol("nan-not-last")
    # ordering
    d = np.diff(v.astype(np.float64))
    if kw["unique"]:
        if not (d > 0).all():
            viol("not-strictly-increasing")
    # unique=False trades ordering/uniqueness for a predictable count ("allow repeated sample values"):
    # only the multiset properties below are judged for it
    fin = v[np.isfinite(v)]
    inf = v[~np.isfinite(v)]
    if user_bounds:
        if len(inf):
            viol("infinity-inside-finite-bounds")
        if len(fin) and (fin.min() < lo or fin.max() > hi):
            viol("outside-bounds", f"adjusted bounds [{lo!r},{hi!r}]")
        if len(fin) and not ((fin == lo).any() and (fin == hi).any()):
            viol("bound-missing", f"adjusted bounds [{lo!r},{hi!r}]")
        straddle = lo < 0 < hi
        if straddle and kw["include_zero"] and not (fin == 0).any():
            viol("zero-requested-but-absent")
    else:
        lo_, hi_ = (t(0) if kw["nonnegative"] else -fi.max), fi.max
        if kw["include_infinity"]:
            if not (v == np.inf).any() or (not kw["nonnegative"] and not (v == -np.inf).any()):
                viol("infinity-requested-but-absent")
        elif len(inf):
            viol("unexpected-infinity")
        if kw["nonnegative"] and (fin < 0).any():
            viol("negative-with-nonnegative")
        if not (fin == fi.max).any() or (not kw["nonnegative"] and not (fin == -fi.max).any()):
            viol("largest-missing")
        if kw["include_zero"] and not (fin == 0).any():
            viol("zero-requested-but-absent")
        if not kw["include_zero"] and (fin == 0).any():
            viol("unexpected-zero")
        huge = np.nextafter(fi.max, t(0))
        if kw["include_huge"] and not (fin == huge).any():
            npos = int(((fin > 0) & (fin < fi.max)).sum()) + 1
            viol("huge-requested-but-absent:positive-samples<=3" if npos <= 3 else "huge-requested-but-absent")
    sub = (fin != 0) & (np.abs(fin) < fi.smallest_normal)
    if sub.any() and not kw["include_subnormal"]:
        viol("unexpected-subnormal")
    if kw["include_subnormal"] and not user_bounds and not (np.abs(fin) == fi.smallest_subnormal).any():
        viol("smallest-subnormal-missing")
    # ULP uniformity of consecutive finite same-sign samples, apart from the special values
    for sign in (1, -1):
        w = fin[(fin > 0) if sign > 0 else (fin < 0)]
        if not user_bounds and len(w) >= 2:
            # the extreme value and the 'huge' neighbour replace regular samples
            w = w[:-2] if sign > 0 else w[2:]
            if not kw["include_huge"]:
                pass
        if len(w) >= 3:
            o = np.abs(ordinal(w)).astype(np.int64)
            dd = np.abs(np.diff(o))
            if dd.max() - dd.min() > 1:
                viol("not-ulp-uniform", f"ordinal steps {sorted(set(dd.tolist()))[:6]} ({'positive' if sign > 0 else 'negative'} part)")
                break


def w_real(task):
    fa = setup_repo_import()
    part = new_part()
    dtname = task["dtype"]
    t = DT[dtname]
    for mnk, mxk in task["bounds"]:
        mn, mx = unkey(mnk, t), unkey(mxk, t)
        user = mn is not None or mx is not None
        sizes = list(task["sizes"])
        if user and dtname == "float16":
            lo, hi = adjusted_bounds(t, mn, mx, True)
            if lo <= hi:
                nrep = int(ordinal(np.asarray(hi))) - int(ordinal(np.asarray(lo))) + 1
                sizes += [s for s in (nrep - 1, nrep, nrep + 1) if 6 <= s <= 70000]
        for size in sorted(set(sizes)):
            for flags in task["flagsets"]:
                judge_real(fa, part, dtname, size, mn, mx, flags)
    part["samples"].append({"real_samples": dtname, "bounds": task["bounds"][:2], "sizes": task["sizes"][:6], "flagsets": len(task["flagsets"])})
    return part


def same(a, b):
    a, b = np.asarray(a), np.asarray(b)
    return a.shape == b.shape and a.dtype == b.dtype and bool(np.all((a == b) | (np.isnan(a) & np.isnan(b))))


def w_products(task):
    fa = setup_repo_import()
    part = new_part()
    u = fa.utils
    dtname = task["dtype"]
    t = DT[dtname]
    for cfg in task["configs"]:
        sizes, mnk, mxk, flags = cfg
        mn, mx = unkey(mnk, t), unkey(mxk, t)
        kw = dict(zip(FLAGS[:-1], flags[:-1]))
        case = {"kind": "product", "dtype": dtname, "sizes": sizes, "min": mnk, "max": mxk, "flags": [bool(f) for f in flags]}
        try:
            with np.errstate(all="ignore"):
                one = [u.real_samples(s, dtype=t, min_value=mn, max_value=mx, **kw) for s in sizes]
        except Exception:
            bump(part, "product_skipped_1d_raises")
            continue
        part["evaluations"] += 1
        part["nontrivial"] += 1
        try:
            with np.errstate(all="ignore"):
                # pairs
                s1, s2 = u.real_pair_samples(tuple(sizes[:2]), dtype=t, min_value=mn, max_value=mx, **kw)
                e1 = np.tile(one[0], one[1].size)
                e2 = np.repeat(one[1], one[0].size)
                if not (same(s1, e1) and same(s2, e2)):
                    add_violation(part, f"real_pair_samples:{dtname}:not-cartesian-product", f"real_pair_samples({sizes[:2]}, min={mn!r}, max={mx!r}, {kw}) is not the product of the 1-D samples", case)
                # triples
                a, b, c = u.real_triple_samples(tuple(sizes), dtype=t, min_value=mn, max_value=mx, **kw)
                G = np.meshgrid(one[0], one[1], one[2], indexing="ij")
                if not (same(a, G[0].ravel()) and same(b, G[1].ravel()) and same(c, G[2].ravel())):
                    add_violation(part, f"real_triple_samples:{dtname}:not-cartesian-product", f"real_triple_samples({sizes}, min={mn!r}, max={mx!r}, {kw}) is not the product of the 1-D samples", case)
                if dtname != "float16":
                    z = u.complex_samples(tuple(sizes[:2]), dtype=t, min_real_value=mn, max_real_value=mx, min_imag_value=mn, max_imag_value=mx, **kw)
                    re, im = one[0], one[1]
                    ok = z.shape == (im.size, re.size) and same(z.real, np.tile(re, (im.size, 1))) and same(z.imag, np.repeat(im, re.size).reshape(im.size, re.size))
                    if not ok:
                        add_violation(part, f"complex_samples:{dtname}:not-cartesian-product", f"complex_samples({sizes[:2]}, min={mn!r}, max={mx!r}, {kw}) is not re x im", case)
                    z1, z2 = u.complex_pair_samples((tuple(sizes[:2]), tuple(sizes[1:3])), dtype=t, min_real_value=mn, max_real_value=mx, min_imag_value=mn, max_imag_value=mx, **kw)
                    za = u.complex_samples(tuple(sizes[:2]), dtype=t, min_real_value=mn, max_real_value=mx, min_imag_value=mn, max_imag_value=mx, **kw)
                    zb = u.complex_samples(tuple(sizes[1:3]), dtype=t, min_real_value=mn, max_real_value=mx, min_imag_value=mn, max_imag_value=mx, **kw)
                    # every pair (za[i,j], zb[k,l]) must occur exactly once
                    if z1.shape != z2.shape or z1.size != za.size * zb.size:
                        add_violation(part, f"complex_pair_samples:{dtname}:wrong-size", f"sizes {z1.shape} vs {za.shape} x {zb.shape}", case)
                    else:
                        def keyz(z):
                            return np.stack([z.real.ravel().view(FMT[dtname]["ui"]), z.imag.ravel().view(FMT[dtname]["ui"])], 1)

                        got = np.concatenate([keyz(z1), keyz(z2)], 1)
                        exp = np.concatenate([np.repeat(keyz(za), zb.size, 0), np.tile(keyz(zb), (za.size, 1))], 1)
                        g = np.unique(got, axis=0)
                        e = np.unique(exp, axis=0)
                        if g.shape != e.shape or not (g == e).all() or len(g) != len(np.unique(exp, axis=0)):
                            add_violation(part, f"complex_pair_samples:{dtname}:not-cartesian-product", f"complex_pair_samples({sizes}, min={mn!r}, max={mx!r}, {kw})", case)
        except Exception as e:
            add_violation(part, f"product-generators:{dtname}:raises:{type(e).__name__}", f"product generator raised {type(e).__name__}: {str(e)[:200]} for sizes={sizes} min={mn!r} max={mx!r} {kw}", case)
    return part


def w_products_tuple(task):
    """per-operand (tuple-valued) bounds: each axis must be the 1-D call with ITS OWN bounds."""
    fa = setup_repo_import()
    part = new_part()
    u = fa.utils
    dtname = task["dtype"]
    t = DT[dtname]
    B = [(t(1), t(10)), (t(2), t(8)), (t(-3), t(4)), (t(-5), t(7)), (t(0.5), t(3)), (t(-9), t(-2))]
    for sizes in ((6, 7, 8), (9, 6, 7)):
        for i0 in range(len(B)):
            b = [B[(i0 + k) % len(B)] for k in range(4)]
            case = {"kind": "product-tuple", "dtype": dtname, "sizes": list(sizes), "i0": i0}
            part["evaluations"] += 1
            part["nontrivial"] += 1
            try:
                with np.errstate(all="ignore"):
                    one = lambda n, bb: u.real_samples(n, dtype=t, min_value=bb[0], max_value=bb[1])
                    # pairs
                    s1, s2 = u.real_pair_samples(tuple(sizes[:2]), dtype=t, min_value=(b[0][0], b[1][0]), max_value=(b[0][1], b[1][1]))
                    a1, a2 = one(sizes[0], b[0]), one(sizes[1], b[1])
                    if not (same(s1, np.tile(a1, a2.size)) and same(s2, np.repeat(a2, a1.size))):
                        add_violation(part, f"real_pair_samples:{dtname}:per-operand-bounds:not-cartesian-product", f"real_pair_samples({sizes[:2]}, min={(b[0][0], b[1][0])}, max={(b[0][1], b[1][1])}) is not the product of the 1-D samples with the respective bounds", case)
                    # triples
                    x, y, z = u.real_triple_samples(tuple(sizes), dtype=t, min_value=(b[0][0], b[1][0], b[2][0]), max_value=(b[0][1], b[1][1], b[2][1]))
                    a3 = one(sizes[2], b[2])
                    G = np.meshgrid(a1, a2, a3, indexing="ij")
                    if not (same(x, G[0].ravel()) and same(y, G[1].ravel()) and same(z, G[2].ravel())):
                        add_violation(part, f"real_triple_samples:{dtname}:per-operand-bounds:not-cartesian-product", f"real_triple_samples({sizes}) with per-operand bounds {b[:3]}", case)
                    if dtname != "float16":
                        # complex: different real / imaginary bounds
                        zc = u.complex_samples(tuple(sizes[:2]), dtype=t, min_real_value=b[0][0], max_real_value=b[0][1], min_imag_value=b[1][0], max_imag_value=b[1][1])
                        if not (zc.shape == (a2.size, a1.size) and same(zc.real, np.tile(a1, (a2.size, 1))) and same(zc.imag, np.repeat(a2, a1.size).reshape(a2.size, a1.size))):
                            add_violation(part, f"complex_samples:{dtname}:different-real-imag-bounds:not-cartesian-product", f"complex_samples({sizes[:2]}) real bounds {b[0]} imag bounds {b[1]}", case)
                        # complex pairs with per-operand bounds on both axes
                        z1, z2 = u.complex_pair_samples((tuple(sizes[:2]), tuple(sizes[1:3])), dtype=t, min_real_value=(b[0][0], b[1][0]), max_real_value=(b[0][1], b[1][1]),
                                                        min_imag_value=(b[2][0], b[3][0]), max_imag_value=(b[2][1], b[3][1]))
                        za = u.complex_samples(tuple(sizes[:2]), dtype=t, min_real_value=b[0][0], max_real_value=b[0][1], min_imag_value=b[2][0], max_imag_value=b[2][1])
                        zb = u.complex_samples(tuple(sizes[1:3]), dtype=t, min_real_value=b[1][0], max_real_value=b[1][1], min_imag_value=b[3][0], max_imag_value=b[3][1])
                        ui = FMT[dtname]["ui"]

                        def keyz(zz):
                            return np.stack([np.ascontiguousarray(zz.real).ravel().view(ui), np.ascontiguousarray(zz.imag).ravel().view(ui)], 1)

                        if z1.shape != z2.shape or z1.size != za.size * zb.size:
                            add_violation(part, f"complex_pair_samples:{dtname}:per-operand-bounds:wrong-size", f"{z1.shape} vs {za.shape} x {zb.shape}", case)
                        else:
                            got = np.unique(np.concatenate([keyz(z1), keyz(z2)], 1), axis=0)
                            exp = np.unique(np.concatenate([np.repeat(keyz(za), zb.size, 0), np.tile(keyz(zb), (za.size, 1))], 1), axis=0)
                            if got.shape != exp.shape or not (got == exp).all():
                                add_violation(part, f"complex_pair_samples:{dtname}:per-operand-bounds:not-cartesian-product", f"complex_pair_samples with real bounds {(b[0], b[1])}, imag bounds {(b[2], b[3])} is not the product of the two complex_samples grids", case)
            except Exception as e:
                add_violation(part, f"product-generators:{dtname}:per-operand-bounds:raises:{type(e).__name__}", f"{type(e).__name__}: {str(e)[:200]} (sizes {sizes}, bounds {b})", case)
    part["samples"].append({"per_operand_bounds": dtname, "bounds": [[float(x) for x in bb] for bb in B[:4]]})
    return part


def flagsets(user_bounds, full):
    out = []
    if user_bounds:
        # include_infinity / include_nan / include_huge / nonnegative are documented as ignored: exercise
        # both the default and one 'all flipped' setting so that "ignored" is itself checked
        for iz, isub, uq in itertools.product((True, False), repeat=3):
            out.append((True, iz, isub, False, True, False, uq))
        if full:
            for iz, isub, uq in itertools.product((True, False), repeat=3):
                out.append((False, iz, isub, True, False, True, uq))
    else:
        for f in itertools.product((True, False), repeat=7):
            out.append(f)
    return out


def run(run):
    thorough = run.tier == "thorough"
    tasks = []
    base_sizes = list(range(6, 25)) + [51, 100, 1000]
    for dtname in ("float16", "float32", "float64"):
        if dtname != "float16" and not thorough:
            sizes = [6, 7, 8, 9, 10, 11, 13, 16, 24, 51, 1000]
        else:
            sizes = base_sizes
        bv = bound_values(dtname)
        pairs = [(key(a), key(b)) for a in bv for b in bv]
        pairs_user = [p_ for p_ in pairs if p_ != ("None", "None")]
        for i in range(0, len(pairs_user), 3):
            tasks.append(dict(dtype=dtname, bounds=pairs_user[i:i + 3], sizes=sizes, flagsets=flagsets(True, thorough)))
        fs = flagsets(False, True)
        for i in range(0, len(fs), 8):
            tasks.append(dict(dtype=dtname, bounds=[("None", "None")], sizes=sizes + [2000, 65536 if dtname == "float16" else 5000], flagsets=fs[i:i + 8]))
    run.map(MOD, "w_real", tasks)
    tasks = []
    for dtname in ("float16", "float32", "float64"):
        t = DT[dtname]
        fi = np.finfo(t)
        cfgs = []
        for sizes in ((6, 7, 8), (9, 6, 13)):
            for mnk, mxk in (("None", "None"), (key(t(-2)), key(t(3))), (key(t(0.5)), key(fi.max)), (key(-fi.max), key(t(-1))), ("None", key(t(7))),
                             (key(t(0)), key(t(10))), (key(t(-10)), key(t(0))), (key(t(0)), "None"), ("None", key(t(0))), (key(t(-0.0)), key(t(5))), (key(t(-3)), key(t(-0.0)))):
                for flags in ((True, True, False, False, True, False, True), (False, False, True, False, False, True, True), (True, True, True, True, True, False, True)):
                    cfgs.append((list(sizes), mnk, mxk, list(flags)))
        for i in range(0, len(cfgs), 6):
            tasks.append(dict(dtype=dtname, configs=cfgs[i:i + 6]))
    run.map(MOD, "w_products", tasks)
    run.map(MOD, "w_products_tuple", [dict(dtype=d) for d in ("float16", "float32", "float64")])
    run.rule = (
        "real_samples over the full product size in {6..24,51,100,1000, N_repr-1,N_repr,N_repr+1 (float16)} x (min,max) in {None, +-largest, +-2, +-1, "
        "+-smallest normal, +-3*subnormal, +-smallest subnormal, +-0}^2 x flag sets (all 128 without bounds; include_zero x include_subnormal x unique "
        "with bounds, plus the 'ignored' flags flipped in thorough) x dtype; complex/pair/triple generators vs Cartesian products of the 1-D calls; "
        "non-trivial = configurations returning more than two samples"
    )
    run.exhaustive = True
    run.coverage_extra["exhaustive_scope"] = "complete product of the stated size / bound / flag alphabets"
    run.assumptions = ["sizes below the documented minimum of 6 are outside the domain", "min_value > max_value (after the documented adjustment) is outside the domain"]


def replay(case):
    fa = setup_repo_import()
    part = new_part()
    t = DT[case["dtype"]]
    if case["kind"] == "real":
        judge_real(fa, part, case["dtype"], case["size"], unkey(case["min"], t), unkey(case["max"], t), tuple(case["flags"]))
    elif case["kind"] == "product-tuple":
        p2 = w_products_tuple(dict(dtype=case["dtype"]))
        part["violations"] = p2["violations"]
    else:
        p2 = w_products(dict(dtype=case["dtype"], configs=[(case["sizes"], case["min"], case["max"], case["flags"])]))
        part["violations"] = p2["violations"]
    return [(v["sig"], v["msg"]) for v in part["violations"]]
