"""C11 — emulated compound operations meet their documented error bounds.

float16: next/nextup/nextdown, is_power_of_two, is_one_or_three_times_power_of_two on every value of
the documented domain; add_3sum / mul_add / every fma variant on the complete product S^3, add_4sum /
dot2 on S^4, of an alphabet S that contains every binade edge, half-way patterns and
near-cancellation pairs, plus the *directed product* z in the +-4-ULP neighbourhood of RN(-x*y).
float32 on analogous (smaller) lattices, float64 with a Fraction oracle.
Oracle: exact value (float64 TwoSum of exact addends + midpoint fix-up, self-checked against
Fraction every run) rounded once; error = ordinal distance to that correctly rounded value.
"""

from __future__ import annotations

import itertools
from fractions import Fraction as F

import numpy as np

from mc import lattice
from mc.harness import add_violation, bump, new_part, setup_repo_import
from mc.oracle import FMT, from_ordinal, ordinal, rn

PROPERTY = "C11"
LEVEL = "exploration"
MOD = "mc.checks.c11"
DT = {"float16": np.float16, "float32": np.float32, "float64": np.float64}
FMA_VARIANTS = []
for _alg in ("a7", "a8", "a9", "apmath"):
    for _fo in (True, False):
        for _pz in ((True, False) if _alg == "a9" else (True,)):
            FMA_VARIANTS.append((_alg, _fo, _pz))


# ------------------------------------------------------------------ evaluators
# Two routes to the same library code: (vec) trace the function with a functional_algorithms
# Context, rewrite for the NumPy target and exec the emitted function -- the package's own
# pipeline for producing an implementation, vectorised; (scalar) eager evaluation through
# utils.NumpyContext on scalars, as the unit tests do.  Bulk enumeration uses (vec); a regular
# sub-lattice is replayed through (scalar) and must agree bit for bit.

_FUNCS = {}


def _consts_expr(fa, ctx, x):
    fpa = fa.floating_point_algorithms
    largest = fpa.get_largest(ctx, x)
    Q, P = fpa.get_is_power_of_two_constants(ctx, largest)
    th = ctx.constant(1.5, x)
    C = fpa.get_veltkamp_splitter_constant(ctx, largest)
    return Q, P, th, C


def build_funcs(fa, dtname):
    if dtname in _FUNCS:
        return _FUNCS[dtname]
    import functional_algorithms.apmath_algorithms as apa
    from mc.harness import quiet

    fpa = fa.floating_point_algorithms
    dtype = DT[dtname]
    out = {}

    def compile_(f, nargs):
        with quiet():
            ctx = fa.Context(paths=[apa])
            g = ctx.trace(f, *([dtype] * nargs))
            g = g.rewrite(fa.targets.numpy, fa.rewrite, fa.rewrite)
            return fa.targets.numpy.as_function(g, debug=0, force_cast_arguments=False)

    def f_next_up(ctx, x: float):
        return fpa.next(ctx, x, up=True)

    def f_next_down(ctx, x: float):
        return fpa.next(ctx, x, up=False)

    def f_nextup(ctx, x: float):
        return fpa.nextup(ctx, x)

    def f_nextdown(ctx, x: float):
        return fpa.nextdown(ctx, x)

    def f_ispow(ctx, x: float):
        Q, P, th, C = _consts_expr(fa, ctx, x)
        return fpa.is_power_of_two(ctx, x, Q, P)

    def f_ispow_inv(ctx, x: float):
        Q, P, th, C = _consts_expr(fa, ctx, x)
        return fpa.is_power_of_two(ctx, x, Q, P, invert=True)

    def f_ispow_default(ctx, x: float):
        return fpa.is_power_of_two(ctx, x)

    def f_is13(ctx, x: float):
        return fpa.is_one_or_three_times_power_of_two(ctx, x)

    def f_is13_inv(ctx, x: float):
        return fpa.is_one_or_three_times_power_of_two(ctx, x, invert=True)

    def f_3sum(ctx, x: float, y: float, z: float):
        Q, P, th, C = _consts_expr(fa, ctx, x)
        return fpa.add_3sum(ctx, x, y, z, Q, P, th)

    def f_mul_add(ctx, x: float, y: float, z: float):
        Q, P, th, C = _consts_expr(fa, ctx, x)
        return fpa.mul_add(ctx, x, y, z, C, Q, P, th)

    def f_4sum(ctx, x: float, y: float, z: float, w: float):
        Q, P, th, C = _consts_expr(fa, ctx, x)
        return fpa.add_4sum(ctx, x, y, z, w, Q, P, th)

    def f_dot2(ctx, x: float, y: float, z: float, w: float):
        Q, P, th, C = _consts_expr(fa, ctx, x)
        return fpa.dot2(ctx, x, y, z, w, C, Q, P, th)

    for name, f, n in (("next[up]", f_next_up, 1), ("next[down]", f_next_down, 1), ("nextup", f_nextup, 1), ("nextdown", f_nextdown, 1),
                       ("is_power_of_two[Q,P]", f_ispow, 1), ("is_power_of_two[Q,P,invert]", f_ispow_inv, 1), ("is_power_of_two[default]", f_ispow_default, 1),
                       ("is_one_or_three_times_power_of_two", f_is13, 1), ("is_one_or_three_times_power_of_two[invert]", f_is13_inv, 1),
                       ("add_3sum", f_3sum, 3), ("mul_add", f_mul_add, 3), ("add_4sum", f_4sum, 4), ("dot2", f_dot2, 4)):
        try:
            out[name] = compile_(f, n)
        except Exception as e:  # building the implementation must not fail
            out[name] = e

    def mk(impl, **kw):
        def f(ctx, x: float, y: float, z: float):
            return impl(ctx, x, y, z, **kw)

        return f

    for implname, impl in (("apmath.fma", fa.apmath.fma), ("apmath_algorithms.fma_real", apa.fma_real)):
        for alg, fo, pz in FMA_VARIANTS:
            label = f"{implname}[{alg},fix_overflow={fo},possibly_zero_z={pz}]"
            try:
                out[label] = compile_(mk(impl, algorithm=alg, fix_overflow=fo, possibly_zero_z=pz), 3)
            except Exception as e:
                out[label] = e
    _FUNCS[dtname] = out
    return out


def call(part, funcs, name, dtname, args):
    """Call a compiled evaluator; a build or run-time exception is a violation of its own class."""
    f = funcs[name]
    if isinstance(f, Exception):
        add_violation(part, f"{name}:{dtname}:build-raises", f"tracing/compiling {name} raised {type(f).__name__}: {f}", {"kind": "point", "sig": name, "dtype": dtname, "args": [float(a[0]).hex() for a in args]})
        return None
    try:
        with np.errstate(all="ignore"):
            r = f(*args)
    except Exception as e:
        add_violation(part, f"{name}:{dtname}:raises", f"{name} raised {type(e).__name__}: {e}", {"kind": "point", "sig": name, "dtype": dtname, "args": [float(a[0]).hex() for a in args]})
        return None
    return r


def rn_sum2(a, b, dtname):
    """RN_dtype(a + b) for float64 arrays a, b whose exact sum is wanted (a, b exact addends).
    Returns (rounded array of dtype, ok mask).  Uses TwoSum in float64 and fixes the one case where
    double rounding can bite: fl64(a+b) lands exactly on a midpoint of the target lattice while
    the exact sum does not."""
    t = DT[dtname]
    fi = np.finfo(t)
    with np.errstate(all="ignore"):
        s = a + b
        bb = s - a
        e = (a - (s - bb)) + (b - bb)
        r = s.astype(t)
        rf = r.astype(np.float64)
        ok = np.isfinite(r) & np.isfinite(s) & (np.abs(s) < float(fi.max))
        need = ok & (rf != s) & (e != 0)
        if need.any():
            idx = np.flatnonzero(need)
            ri = r[idx]
            si = s[idx]
            ei = e[idx]
            rfi = rf[idx]
            o = np.nextafter(ri, np.where(si > rfi, t(np.inf), t(-np.inf)).astype(t))
            of = o.astype(np.float64)
            m = (rfi + of) / 2
            tie = si == m
            up = np.maximum(ri, o)
            dn = np.minimum(ri, o)
            fixed = np.where(tie, np.where(ei > 0, up, dn), ri)
            r = r.copy()
            r[idx] = fixed
    return r, ok


def rn_sum2_selftest(dtname, seed):
    t = DT[dtname]
    lat = lattice.binade_lattice(t, mantissas=3, seed=seed, estride=1 if dtname == "float16" else 9)
    lat = lat[np.isfinite(lat)]
    rng_idx = np.arange(0, len(lat), max(1, len(lat) // 60))
    A = lat[rng_idx].astype(np.float64)
    n = 0
    X, Y, Z = np.meshgrid(A, A, A, indexing="ij")
    X, Y, Z = X.ravel(), Y.ravel(), Z.ravel()
    P = X * Y
    r, ok = rn_sum2(P, Z, dtname)
    step = max(1, len(X) // 4000)
    for i in range(0, len(X), step):
        if not ok[i]:
            continue
        want = rn(F(float(X[i])) * F(float(Y[i])) + F(float(Z[i])), dtname)
        if not (np.isfinite(want)):
            continue
        assert r[i] == want, (dtname, X[i], Y[i], Z[i], r[i], want)
        n += 1
    # directed midpoint cases: z = midpoint-ish, p tiny
    return n


def udist(a, b):
    return np.abs(ordinal(a) - ordinal(b))


def report(part, sig, dtname, args, bad, msgf, route="vec"):
    idx = np.flatnonzero(bad)
    if not len(idx):
        return
    part["counters"]["viol:" + sig] = part["counters"].get("viol:" + sig, 0) + int(len(idx)) - min(3, len(idx))
    for i in idx[:3]:
        case = {"kind": "point", "sig": sig, "dtype": dtname, "route": route, "args": [float(a[i]).hex() for a in args]}
        add_violation(part, sig, msgf(i), case)


# ------------------------------------------------------------------ scalar (eager) route


def scalar_eval(fa, name, dtname, args, ctx=None):
    """Evaluate through utils.NumpyContext on scalars (what the unit tests exercise)."""
    import functional_algorithms.apmath_algorithms as apa

    t = DT[dtname]
    fpa = fa.floating_point_algorithms
    if ctx is None:
        ctx = fa.utils.NumpyContext(t)
    k = consts(dtname)
    n = len(args[0])
    outs = None
    for i in range(n):
        a = [arg[i] for arg in args]
        with np.errstate(all="ignore"):
            if name == "next[up]":
                r = fpa.next(ctx, a[0], up=True)
            elif name == "next[down]":
                r = fpa.next(ctx, a[0], up=False)
            elif name == "nextup":
                r = fpa.nextup(ctx, a[0])
            elif name == "nextdown":
                r = fpa.nextdown(ctx, a[0])
            elif name == "is_power_of_two[Q,P]":
                r = fpa.is_power_of_two(ctx, a[0], k["Q"], k["P"])
            elif name == "is_power_of_two[Q,P,invert]":
                r = fpa.is_power_of_two(ctx, a[0], k["Q"], k["P"], invert=True)
            elif name == "is_power_of_two[default]":
                r = fpa.is_power_of_two(ctx, a[0])
            elif name == "is_one_or_three_times_power_of_two":
                r = fpa.is_one_or_three_times_power_of_two(ctx, a[0])
            elif name == "is_one_or_three_times_power_of_two[invert]":
                r = fpa.is_one_or_three_times_power_of_two(ctx, a[0], invert=True)
            elif name == "add_3sum":
                r = fpa.add_3sum(ctx, a[0], a[1], a[2], k["Q"], k["P"], k["th"])
            elif name == "mul_add":
                r = fpa.mul_add(ctx, a[0], a[1], a[2], k["C"], k["Q"], k["P"], k["th"])
            elif name == "add_4sum":
                r = fpa.add_4sum(ctx, a[0], a[1], a[2], a[3], k["Q"], k["P"], k["th"])
            elif name == "dot2":
                r = fpa.dot2(ctx, a[0], a[1], a[2], a[3], k["C"], k["Q"], k["P"], k["th"])
            elif name.startswith("apmath_algorithms.fma_real["):
                alg, fo, pz = name[name.index("[") + 1:-1].split(",")
                r = apa.fma_real(ctx, a[0], a[1], a[2], algorithm=alg, fix_overflow=fo.endswith("True"), possibly_zero_z=pz.endswith("True"))
            else:
                raise KeyError(name)
        if isinstance(r, (tuple, list)):
            if outs is None:
                outs = [[] for _ in r]
            for o, v in zip(outs, r):
                o.append(v)
        else:
            if outs is None:
                outs = []
            outs.append(r)
    if outs and isinstance(outs[0], list):
        return [np.array(o) for o in outs]
    return np.array(outs)


SCALAR_OK = lambda name: not name.startswith("apmath.fma[")  # apmath.fma is only usable through tracing


def evaluator(part, fa, dtname, route):
    if route == "vec":
        funcs = build_funcs(fa, dtname)
        return lambda name, args: call(part, funcs, name, dtname, args)

    def ev(name, args):
        if not SCALAR_OK(name):
            return None
        try:
            return scalar_eval(fa, name, dtname, args)
        except Exception as e:
            add_violation(part, f"{name}:{dtname}:scalar-raises", f"{name} (NumpyContext) raised {type(e).__name__}: {e}", {"kind": "point", "sig": name, "dtype": dtname, "route": "scalar", "args": [float(a[0]).hex() for a in args]})
            return None

    return ev


# ------------------------------------------------------------------ unary


def check_unary(part, fa, dtname, X, route="vec"):
    t = DT[dtname]
    f = FMT[dtname]
    fi = np.finfo(t)
    ev = evaluator(part, fa, dtname, route)
    p = f["p"]
    ax = np.abs(X)
    normal = np.isfinite(X) & (ax >= fi.smallest_normal)
    rt = "" if route == "vec" else ":scalar"
    with np.errstate(all="ignore"):
        for name, up in (("next[up]", True), ("next[down]", False), ("nextup", True), ("nextdown", False)):
            if route == "vec":
                break  # next() is written for eager contexts (its constant is untyped under tracing): scalar route only
            want = np.nextafter(X, t(np.inf) if up else t(-np.inf))
            dom = normal & np.isfinite(want) & (np.abs(want) >= fi.smallest_normal)
            got = ev(name, [X])
            if got is None:
                continue
            part["evaluations"] += int(dom.sum())
            bad = dom & ~(got == want)
            report(part, f"{name}:{dtname}:!=nextafter{rt}", dtname, [X], bad, lambda i: f"{name}({X[i]!r}) = {got[i]!r}, nextafter gives {want[i]!r}", route)
        part["nontrivial"] += int(normal.sum())
        lo, hi = {"float16": (-24, 6), "float32": (-129, 105), "float64": (-1074, 972)}[dtname]
        dom = (ax >= float(np.ldexp(1.0, lo))) & (ax < float(np.ldexp(1.0, hi))) & np.isfinite(X)
        m, _ = np.frexp(ax.astype(np.float64))
        ispow = m == 0.5
        for label, expect in (("is_power_of_two[Q,P]", ispow), ("is_power_of_two[Q,P,invert]", ~ispow), ("is_power_of_two[default]", ispow)):
            got = ev(label, [X])
            if got is None:
                continue
            got = np.asarray(got)
            part["evaluations"] += int(dom.sum())
            bad = dom & (got.astype(bool) != expect)
            report(part, f"{label}:{dtname}:wrong{rt}", dtname, [X], bad, lambda i: f"{label}({X[i]!r}) = {bool(got[i])}", route)
        P3 = t((1 << (p - 2)) + 1)
        dom3 = normal & np.isfinite(P3 * X)
        is13 = (m == 0.5) | (m == 0.75)
        for label, inv in (("is_one_or_three_times_power_of_two", False), ("is_one_or_three_times_power_of_two[invert]", True)):
            got = ev(label, [X])
            if got is None:
                continue
            got = np.asarray(got)
            part["evaluations"] += int(dom3.sum())
            bad = dom3 & (got.astype(bool) != (is13 != inv))
            report(part, f"{label}:{dtname}:wrong{rt}", dtname, [X], bad, lambda i: f"{label}({X[i]!r}) = {bool(got[i])}", route)


# ------------------------------------------------------------------ n-ary


def consts(dtname):
    t = DT[dtname]
    p = FMT[dtname]["p"]
    return dict(Q=t(1 << (p - 1)), P=t((1 << (p - 1)) + 1), th=t(1.5), C=t(2 ** ((p + 1) // 2) + 1))


def exact3(dtname, Xw, Yw, Zw):
    """RN(x+y+z) and exactness mask for float64-held operands of a narrower format."""
    t = DT[dtname]
    if dtname == "float16":
        exact = Xw + Yw + Zw  # <= 43 bits: exact
        return exact.astype(t), np.isfinite(exact), exact
    s2 = Xw + Yw
    exact_s2 = ((s2 - Xw) == Yw) & ((s2 - Yw) == Xw)
    want, okx = rn_sum2(s2, Zw, dtname)
    return want, okx & exact_s2, None


def check3(part, fa, dtname, X, Y, Z, what=("3sum", "mul_add", "fma"), route="vec"):
    t = DT[dtname]
    fi = np.finfo(t)
    ev = evaluator(part, fa, dtname, route)
    rt = "" if route == "vec" else ":scalar"
    Xw, Yw, Zw = (a.astype(np.float64) for a in (X, Y, Z))
    big = float(fi.max)
    lowq = float(np.ldexp(1.0, FMT[dtname]["emin"] - FMT[dtname]["p"] + 1))
    with np.errstate(all="ignore"):
        if "3sum" in what:
            dom = (np.abs(Xw) < big / 4) & (np.abs(Yw) < big / 4) & (np.abs(Zw) < big / 4)
            want, okx, exact = exact3(dtname, Xw, Yw, Zw)
            res = ev("add_3sum", [X, Y, Z])
            if res is not None:
                s, e, tt = (np.asarray(v) for v in res)
                m = dom & okx & np.isfinite(want)
                part["evaluations"] += int(m.sum())
                if exact is not None:
                    tot = s.astype(np.float64) + e.astype(np.float64) + tt.astype(np.float64)
                    bad = m & ~(tot == exact)
                    report(part, f"add_3sum:{dtname}:s+e+t!=x+y+z{rt}", dtname, [X, Y, Z], bad, lambda i: f"add_3sum({X[i]!r},{Y[i]!r},{Z[i]!r}) = ({s[i]!r},{e[i]!r},{tt[i]!r}) sums to {tot[i]!r} != {exact[i]!r}", route)
                r = s + (e + tt)
                d = udist(r, want)
                bad = m & ~(np.isfinite(r) & (d <= 1))
                report(part, f"add_3sum:{dtname}:s+(e+t)>1ulp{rt}", dtname, [X, Y, Z], bad, lambda i: f"add_3sum({X[i]!r},{Y[i]!r},{Z[i]!r}): s+(e+t)={r[i]!r}, RN(exact)={want[i]!r}, {d[i]} ULP", route)
                part["nontrivial"] += int((m & (tt != 0)).sum())
        prod = Xw * Yw  # exact in float64 for float16/float32 operands
        want, okx = rn_sum2(prod, Zw, dtname)
        underflow = (prod != 0) & (np.floor(prod / lowq) != prod / lowq)
        fin = okx & np.isfinite(prod.astype(t)) & np.isfinite(want)
        if "mul_add" in what:
            sq = float(np.sqrt(fi.max)) / 2
            dom = (np.abs(Xw) < sq) & (np.abs(Yw) < sq) & (np.abs(Zw) < big / 2) & fin & ~underflow
            r = ev("mul_add", [X, Y, Z])
            if r is not None:
                r = np.asarray(r)
                part["evaluations"] += int(dom.sum())
                d = udist(r, want)
                bad = dom & ~(np.isfinite(r) & (d <= 2))
                report(part, f"mul_add:{dtname}:>2ulp{rt}", dtname, [X, Y, Z], bad, lambda i: f"mul_add({X[i]!r},{Y[i]!r},{Z[i]!r}) = {r[i]!r}, RN(x*y+z) = {want[i]!r}, {d[i]} ULP", route)
        if "fma" in what:
            # where Dekker's product overflows internally although x*y is finite (|xh*yh| > largest)
            sctx = fa.utils.NumpyContext(t)
            xh, _ = fa.floating_point_algorithms.split_veltkamp(sctx, X, scale=True)
            yh, _ = fa.floating_point_algorithms.split_veltkamp(sctx, Y, scale=True)
            dek_ovf = ~(np.abs(xh.astype(np.float64) * yh.astype(np.float64)) <= big)
            near_ovf = dek_ovf | (np.abs(prod) > big / 2) | (np.abs(Zw) > big / 2)
            for impl in ("apmath.fma", "apmath_algorithms.fma_real"):
                for alg, fo, pz in FMA_VARIANTS:
                    label = f"{impl}[{alg},fix_overflow={fo},possibly_zero_z={pz}]"
                    r = ev(label, [X, Y, Z])
                    if r is None:
                        continue
                    r = np.asarray(r)
                    d = udist(r, want)
                    okr = np.isfinite(r) & (d <= 1)
                    zz = Z == 0
                    if fo:
                        dom_f = fin
                        # the documented fallback (x*y, 0) of an internally overflowing Dekker product is finite but inexact; a non-finite
                        # result there is a different failure (the guard did not fire) and is classified separately
                        nonfin = ~np.isfinite(r)
                        classes = (("normal-range", fin & ~underflow & ~dek_ovf), ("dekker-overflow-fallback", fin & dek_ovf & ~nonfin), ("dekker-overflow-guard-missed:non-finite-result", fin & dek_ovf & nonfin),
                                   ("product-underflows,z!=0", fin & underflow & ~zz), ("product-underflows,z==0", fin & underflow & zz))
                    else:
                        # documented: without fix_overflow an overflow inside Dekker's product / 2Sum gives nan -> outside the domain
                        dom_f = fin & ~near_ovf
                        classes = (("normal-range", dom_f & ~underflow), ("product-underflows,z!=0", dom_f & underflow & ~zz), ("product-underflows,z==0", dom_f & underflow & zz))
                    part["evaluations"] += int(dom_f.sum())
                    for cls, msk in classes:
                        bad = msk & ~okr
                        report(part, f"{label}:{dtname}:>1ulp:{cls}{rt}", dtname, [X, Y, Z], bad, lambda i: f"{label}({X[i]!r},{Y[i]!r},{Z[i]!r}) = {r[i]!r}, RN(x*y+z) = {want[i]!r}, {d[i]} ULP", route)
            part["nontrivial"] += int((fin & (prod.astype(t).astype(np.float64) != prod)).sum())


def check4(part, fa, dtname, X, Y, Z, W, route="vec"):
    t = DT[dtname]
    fi = np.finfo(t)
    ev = evaluator(part, fa, dtname, route)
    rt = "" if route == "vec" else ":scalar"
    Xw, Yw, Zw, Ww = (a.astype(np.float64) for a in (X, Y, Z, W))
    big = float(fi.max)
    lowq = float(np.ldexp(1.0, FMT[dtname]["emin"] - FMT[dtname]["p"] + 1))
    with np.errstate(all="ignore"):
        dom = (np.abs(Xw) < big / 4) & (np.abs(Yw) < big / 4) & (np.abs(Zw) < big / 4) & (np.abs(Ww) < big / 4)
        a, b = Xw + Yw, Zw + Ww
        exact_ab = ((a - Xw) == Yw) & ((a - Yw) == Xw) & ((b - Zw) == Ww) & ((b - Ww) == Zw)
        want, okx = rn_sum2(a, b, dtname)
        m = dom & okx & exact_ab
        r = ev("add_4sum", [X, Y, Z, W])
        if r is not None:
            r = np.asarray(r)
            part["evaluations"] += int(m.sum())
            d = udist(r, want)
            bad = m & ~(np.isfinite(r) & (d <= 1))
            report(part, f"add_4sum:{dtname}:>1ulp{rt}", dtname, [X, Y, Z, W], bad, lambda i: f"add_4sum({X[i]!r},{Y[i]!r},{Z[i]!r},{W[i]!r}) = {r[i]!r}, RN(exact) = {want[i]!r}, {d[i]} ULP", route)
            part["nontrivial"] += int((m & (want.astype(np.float64) != a + b)).sum())
        sq = float(np.sqrt(fi.max)) / 2
        p1, p2 = Xw * Yw, Zw * Ww
        under = ((p1 != 0) & (np.floor(p1 / lowq) != p1 / lowq)) | ((p2 != 0) & (np.floor(p2 / lowq) != p2 / lowq))
        dom = (np.abs(Xw) < sq) & (np.abs(Yw) < sq) & (np.abs(Zw) < sq) & (np.abs(Ww) < sq) & ~under
        want, okx = rn_sum2(p1, p2, dtname)
        m = dom & okx
        r = ev("dot2", [X, Y, Z, W])
        if r is not None:
            r = np.asarray(r)
            part["evaluations"] += int(m.sum())
            d = udist(r, want)
            bad = m & ~(np.isfinite(r) & (d <= 3))
            report(part, f"dot2:{dtname}:>3ulp{rt}", dtname, [X, Y, Z, W], bad, lambda i: f"dot2({X[i]!r},{Y[i]!r},{Z[i]!r},{W[i]!r}) = {r[i]!r}, RN(exact) = {want[i]!r}, {d[i]} ULP", route)


def check64(part, fa, pts):
    """float64 triples, Fraction oracle (per point); vectorised evaluation of the implementation."""
    t = np.float64
    funcs = build_funcs(fa, "float64")
    X, Y, Z = (np.array(c, dtype=t) for c in zip(*pts))
    fi = np.finfo(t)
    res3 = call(part, funcs, "add_3sum", "float64", [X, Y, Z])
    ma = call(part, funcs, "mul_add", "float64", [X, Y, Z])
    fm = {}
    for impl in ("apmath.fma", "apmath_algorithms.fma_real"):
        for v in FMA_VARIANTS:
            label = f"{impl}[{v[0]},fix_overflow={v[1]},possibly_zero_z={v[2]}]"
            r = call(part, funcs, label, "float64", [X, Y, Z])
            if r is not None:
                fm[label] = np.asarray(r)
    if res3 is not None:
        s, e, tt = (np.asarray(v) for v in res3)
        with np.errstate(all="ignore"):
            r3 = s + (e + tt)
    lowq = F(2) ** -1074
    big = F(float(fi.max))
    sq = F(float(np.sqrt(fi.max))) / 2
    for i in range(len(X)):
        fx, fy, fz = F(float(X[i])), F(float(Y[i])), F(float(Z[i]))
        case = {"kind": "point", "sig": "float64", "dtype": "float64", "args": [float(X[i]).hex(), float(Y[i]).hex(), float(Z[i]).hex()]}
        if res3 is not None and max(abs(fx), abs(fy), abs(fz)) < big / 4:
            ex = fx + fy + fz
            want = rn(ex, "float64")
            if np.isfinite(want) and all(np.isfinite(v[i]) for v in (s, e, tt)):
                part["evaluations"] += 1
                if F(float(s[i])) + F(float(e[i])) + F(float(tt[i])) != ex:
                    add_violation(part, "add_3sum:float64:s+e+t!=x+y+z", f"add_3sum({X[i]!r},{Y[i]!r},{Z[i]!r}) = ({s[i]!r},{e[i]!r},{tt[i]!r})", case)
                if abs(int(ordinal(r3[i])) - int(ordinal(want))) > 1:
                    add_violation(part, "add_3sum:float64:s+(e+t)>1ulp", f"add_3sum({X[i]!r},{Y[i]!r},{Z[i]!r}): {r3[i]!r} vs {want!r}", case)
        pr = fx * fy
        ex = pr + fz
        want = rn(ex, "float64")
        under = pr != 0 and (pr / lowq).denominator != 1
        if np.isfinite(want) and np.isfinite(rn(pr, "float64")):
            if ma is not None and abs(fx) < sq and abs(fy) < sq and abs(fz) < big / 2 and not under:
                part["evaluations"] += 1
                if not np.isfinite(ma[i]) or abs(int(ordinal(ma[i])) - int(ordinal(want))) > 2:
                    add_violation(part, "mul_add:float64:>2ulp", f"mul_add({X[i]!r},{Y[i]!r},{Z[i]!r}) = {ma[i]!r} vs {want!r}", case)
            cls = "normal-range" if not under else ("product-underflows,z==0" if fz == 0 else "product-underflows,z!=0")
            near = abs(pr) > big / 4 or abs(fz) > big / 2
            for label, arr in fm.items():
                if near and "fix_overflow=False" in label:
                    continue
                if near and not under:
                    cls = "dekker-overflow-fallback"
                part["evaluations"] += 1
                if not np.isfinite(arr[i]) or abs(int(ordinal(arr[i])) - int(ordinal(want))) > 1:
                    add_violation(part, f"{label}:float64:>1ulp:{cls}", f"{label}({X[i]!r},{Y[i]!r},{Z[i]!r}) = {arr[i]!r} vs RN {want!r}", case)
            part["nontrivial"] += 1


# ------------------------------------------------------------------ alphabets / workers


def alphabet(dtname, n, seed):
    """n-ish values: binade edges (2^e, 2^e(1+-ulp), 1.5*2^e), half-way patterns, a few generic
    mantissas, both signs, zero, smallest/largest."""
    t = DT[dtname]
    f = FMT[dtname]
    fi = np.finfo(t)
    w = f["p"] - 1
    es = list(range(f["emin"], f["emax"] + 1))
    ms = lattice.mantissa_patterns(t, 8, seed)
    vals = []
    stride = max(1, (len(es) * len(ms) * 2) // max(n, 1))
    k = seed % stride
    for e in es:
        for m in ms:
            for sgn in (1.0, -1.0):
                if k % stride == 0:
                    vals.append(sgn * (1.0 + m / float(1 << w)) * float(np.ldexp(1.0, e)))
                k += 1
    vals += [0.0, float(fi.smallest_subnormal), -float(fi.smallest_subnormal), float(fi.smallest_normal), float(fi.max), -float(fi.max), 1.0, -1.0, 3.0, 0.5, 1.5, float(fi.max) / 4, float(np.sqrt(fi.max)) / 2]
    a = np.array(vals, dtype=t)
    a = a[np.isfinite(a)]
    return np.unique(a.view(f["ui"])).view(t)


def w_unary(task):
    fa = setup_repo_import()
    part = new_part()
    dtname = task["dtype"]
    X = np.array(task["bits"], dtype=np.uint64).astype(FMT[dtname]["ui"]).view(DT[dtname])
    check_unary(part, fa, dtname, X, route=task.get("route", "vec"))
    part["samples"].append({"unary": dtname, "route": task.get("route", "vec"), "n": len(X), "x0": float(X[0]).hex()})
    return part


def w_triples(task):
    fa = setup_repo_import()
    part = new_part()
    dtname = task["dtype"]
    t = DT[dtname]
    route = task.get("route", "vec")
    A = np.array(task["alphabet_bits"], dtype=np.uint64).astype(FMT[dtname]["ui"]).view(t)
    rows = A[task["rows"][0]:task["rows"][1]]
    if not len(rows):
        return part
    X, Y, Z = np.meshgrid(rows, A, A, indexing="ij")
    X, Y, Z = X.ravel(), Y.ravel(), Z.ravel()
    check3(part, fa, dtname, X, Y, Z, route=route)
    # directed cancellation: z in the +-4 ULP neighbourhood of RN(-x*y)
    X2, Y2 = np.meshgrid(rows, A, indexing="ij")
    X2, Y2 = X2.ravel(), Y2.ravel()
    with np.errstate(all="ignore"):
        c = (-(X2.astype(np.float64) * Y2.astype(np.float64))).astype(t)
    ok = np.isfinite(c)
    X2, Y2, c = X2[ok], Y2[ok], c[ok]
    oc = ordinal(c)
    omax = int(ordinal(np.array(np.finfo(t).max, dtype=t)))
    for dlt in (range(-4, 5) if route == "vec" else (-1, 0, 1)):
        oz = np.clip(oc + dlt, -omax, omax)
        Zd = from_ordinal(oz, t)
        check3(part, fa, dtname, X2, Y2, Zd, what=("mul_add", "fma"), route=route)
    part["samples"].append({"triples": dtname, "route": route, "x": float(rows[0]).hex(), "alphabet": int(len(A))})
    return part


def w_quads(task):
    fa = setup_repo_import()
    part = new_part()
    dtname = task["dtype"]
    t = DT[dtname]
    A = np.array(task["alphabet_bits"], dtype=np.uint64).astype(FMT[dtname]["ui"]).view(t)
    rows = A[task["rows"][0]:task["rows"][1]]
    if not len(rows):
        return part
    X, Y, Z, W = np.meshgrid(rows, A, A, A, indexing="ij")
    check4(part, fa, dtname, X.ravel(), Y.ravel(), Z.ravel(), W.ravel(), route=task.get("route", "vec"))
    part["samples"].append({"quads": dtname, "route": task.get("route", "vec"), "x": float(rows[0]).hex(), "alphabet": int(len(A))})
    return part


def w_f64(task):
    fa = setup_repo_import()
    part = new_part()
    A = np.array(task["alphabet_bits"], dtype=np.uint64).view(np.float64)
    rows = A[task["rows"][0]:task["rows"][1]]
    pts = [(float(x), float(y), float(z)) for x in rows for y in A for z in A]
    if pts:
        check64(part, fa, pts)
        pts2 = []
        for x in rows:
            for y in A[::2]:
                with np.errstate(all="ignore"):
                    c = np.float64(-(x * y))
                if np.isfinite(c):
                    for d in (-2, -1, 0, 1, 2):
                        o = int(ordinal(c)) + d
                        if abs(o) > int(ordinal(np.float64(np.finfo(np.float64).max))):
                            continue
                        pts2.append((float(x), float(y), float(from_ordinal(o, np.float64)[()])))
        check64(part, fa, pts2)
    return part


def w_shared_context(task):
    """one NumpyContext used for several float types in sequence (scalar route): results equal to a fresh context's"""
    fa = setup_repo_import()
    part = new_part()
    names = ["nextup", "is_power_of_two[default]", "is_one_or_three_times_power_of_two", "add_3sum", "mul_add", "add_4sum", "dot2"] + [f"apmath_algorithms.fma_real[{a},fix_overflow={fo},possibly_zero_z={pz}]" for a, fo, pz in FMA_VARIANTS]
    pts = [0.1, 1.0, -3.0, 100.5, -0.00123, 3.0, 0.75, 2.5e-3]
    for name in names:
        nargs = 1 if name in ("nextup", "is_power_of_two[default]", "is_one_or_three_times_power_of_two") else (4 if name in ("add_4sum", "dot2") else 3)
        for d0 in ("float16", "float32", "float64"):
            for seq in itertools.product(("float16", "float32", "float64"), repeat=task["length"]):
                ctx = fa.utils.NumpyContext(DT[d0])
                for step, dtname in enumerate(seq):
                    t = DT[dtname]
                    xs = np.array(pts, dtype=t)
                    args = [np.roll(xs, k) for k in range(nargs)]
                    part["evaluations"] += 1
                    try:
                        got = scalar_eval(fa, name, dtname, args, ctx=ctx)
                        ref = scalar_eval(fa, name, dtname, args, ctx=fa.utils.NumpyContext(DT[d0]))
                    except Exception as e:
                        bump(part, f"shared_context_raises:{type(e).__name__}")
                        break
                    if step:
                        part["nontrivial"] += 1
                    gl = got if isinstance(got, list) else [got]
                    rl = ref if isinstance(ref, list) else [ref]
                    if not all(np.asarray(g_).dtype == np.asarray(r_).dtype and np.asarray(g_).tobytes() == np.asarray(r_).tobytes() for g_, r_ in zip(gl, rl)):
                        add_violation(part, f"{name}:shared-context:{dtname}-after-{'+'.join(seq[:step]) or 'nothing'}:differs-from-fresh-context", f"NumpyContext({d0}) used for {seq[:step + 1]}: {name} on {dtname} gives {gl} but a fresh context {rl}", {"kind": "shared", "sig": name, "d0": d0, "seq": list(seq)})
                        break
    part["samples"].append({"shared_context": "all dtype sequences", "length": task["length"]})
    return part


def overflow_edge_points(dtname):
    """x*y (or z) at or next to +-largest, the other addend a small multiple of half an ULP of largest with the opposite
    sign: the exact result is finite and representable or a tie next to largest (the overflow guards must not misfire)"""
    t = DT[dtname]
    fi = np.finfo(t)
    mx = float(fi.max)
    u = mx - float(np.nextafter(t(mx), t(0)))  # ulp(largest) (numpy.spacing(max) is inf)
    pts = []
    prods = [(mx, 1.0), (mx / 2, 2.0), (mx / 4, 4.0), (float(np.nextafter(t(mx), t(0))), 1.0), (mx / 2, 1.0), (float(np.sqrt(mx)), float(np.sqrt(mx)) / 2)]
    for x, y in prods:
        for k in (0.5, 1.0, 1.5, 2.0, 2.5, 3.0, 4.0, 6.0):
            for sg in (1.0, -1.0):
                pts.append((sg * x, y, -sg * k * u))
                pts.append((sg * x, -y, sg * k * u))
                # roles swapped: z at the edge, the product small
                pts.append((-sg * k * u / 8.0, 8.0, sg * x * y if abs(x * y) <= mx else sg * mx))
    return pts


def w_overflow_edge(task):
    fa = setup_repo_import()
    part = new_part()
    for dtname in ("float16", "float32"):
        t = DT[dtname]
        pts = overflow_edge_points(dtname)
        with np.errstate(all="ignore"):
            X, Y, Z = (np.array(c, dtype=t) for c in zip(*pts))
        ok = np.isfinite(X) & np.isfinite(Y) & np.isfinite(Z)
        check3(part, fa, dtname, X[ok], Y[ok], Z[ok], what=("mul_add", "fma"), route="vec")
    pts = [p_ for p_ in overflow_edge_points("float64") if all(np.isfinite(v) for v in p_)]
    check64(part, fa, pts)
    part["samples"].append({"overflow_edge_points": len(pts)})
    return part


def w_selftest(task):
    part = new_part()
    n = rn_sum2_selftest(task["dtype"], task["seed"])
    part["counters"]["oracle_selftest_points_" + task["dtype"]] = n
    return part


def run(run):
    thorough = run.tier == "thorough"
    fa = setup_repo_import()
    for dtname in DT:
        build_funcs(fa, dtname)  # built once in the parent; forked workers inherit the compiled evaluators
    run.counters["compiled_evaluators"] = sum(1 for d in _FUNCS.values() for f in d.values() if not isinstance(f, Exception))
    run.map(MOD, "w_selftest", [dict(dtype="float16", seed=run.seed), dict(dtype="float32", seed=run.seed)])
    run.map(MOD, "w_overflow_edge", [dict()])
    run.map(MOD, "w_shared_context", [dict(length=2)] + ([dict(length=3)] if run.tier == "thorough" else []))
    tasks = []
    allb = np.arange(1 << 16, dtype=np.int64)
    for i in range(16):
        tasks.append(dict(dtype="float16", bits=allb[i::16].tolist()))
    sc = allb[(allb % 16) == (run.seed % 16)] if not thorough else allb[(allb % 4) == (run.seed % 4)]
    for i in range(16):
        tasks.append(dict(dtype="float16", bits=sc[i::16].tolist(), route="scalar"))
    for dtname in ("float32", "float64"):
        lat = lattice.binade_lattice(DT[dtname], mantissas=64 if thorough else 16, seed=run.seed, include_inf=True)
        b = [int(x) for x in lat.view(FMT[dtname]["ui"]).astype(np.uint64)]
        for i in range(16):
            tasks.append(dict(dtype=dtname, bits=b[i::16]))
        for i in range(16):
            tasks.append(dict(dtype=dtname, bits=b[i::16][:: 16 if not thorough else 4], route="scalar"))
    run.map(MOD, "w_unary", tasks)
    tasks = []
    for dtname, n in (("float16", 400 if thorough else 160), ("float32", 256 if thorough else 96)):
        A = alphabet(dtname, n, run.seed)
        run.counters[f"alphabet3_{dtname}"] = int(len(A))
        Ab = [int(x) for x in A.view(FMT[dtname]["ui"]).astype(np.uint64)]
        step = 1 if thorough else 2
        for i in range(0, len(Ab), step):
            tasks.append(dict(dtype=dtname, alphabet_bits=Ab, rows=[i, i + step]))
        # scalar (eager) route on a regular sub-alphabet
        As = Ab[:: 4 if thorough else 6]
        run.counters[f"alphabet3_scalar_{dtname}"] = len(As)
        for i in range(len(As)):
            tasks.append(dict(dtype=dtname, alphabet_bits=As, rows=[i, i + 1], route="scalar"))
    run.map(MOD, "w_triples", tasks, chunksize=1)
    tasks = []
    for dtname, n in (("float16", 110 if thorough else 56), ("float32", 72 if thorough else 40)):
        A = alphabet(dtname, n, run.seed + 1)
        run.counters[f"alphabet4_{dtname}"] = int(len(A))
        Ab = [int(x) for x in A.view(FMT[dtname]["ui"]).astype(np.uint64)]
        for i in range(0, len(Ab)):
            tasks.append(dict(dtype=dtname, alphabet_bits=Ab, rows=[i, i + 1]))
        As = Ab[:: 4 if thorough else 5]
        for i in range(len(As)):
            tasks.append(dict(dtype=dtname, alphabet_bits=As, rows=[i, i + 1], route="scalar"))
    run.map(MOD, "w_quads", tasks, chunksize=1)
    A = alphabet("float64", 56 if thorough else 36, run.seed)
    Ab = [int(x) for x in A.view(np.uint64)]
    run.counters["alphabet3_float64"] = len(Ab)
    run.map(MOD, "w_f64", [dict(alphabet_bits=Ab, rows=[i, i + 1]) for i in range(len(Ab))], chunksize=1)
    run.rule = (
        "next/nextup/nextdown, is_power_of_two, is_one_or_three_times_power_of_two: every float16 in the documented domains + float32/64 "
        "binade lattices; add_3sum, mul_add, 2x10 fma variants (apmath.fma and apmath_algorithms.fma_real x a7/a8/a9/apmath x fix_overflow "
        "x possibly_zero_z): complete products S^3 plus z within +-4 ULP of RN(-x*y) for all (x,y) in S^2; add_4sum, dot2: complete "
        "products S^4; evaluated through the traced+emitted NumPy implementation (vectorised) and, on regular sub-alphabets, eagerly "
        "through utils.NumpyContext; alphabets listed in counters; non-trivial = points whose product/sum is inexact in the format"
    )
    run.exhaustive = True
    run.coverage_extra["exhaustive_scope"] = "unary: all float16; n-ary: complete Cartesian products of the stated alphabets"
    run.assumptions = ["float64 TwoSum of exact addends + midpoint fix-up gives RN of the exact sum (self-checked against Fraction each run)", "ULP error = ordinal distance to the correctly rounded exact result"]


def replay(case):
    fa = setup_repo_import()
    part = new_part()
    if case.get("kind") == "shared":
        p2 = w_shared_context(dict(length=len(case["seq"])))
        return [(v["sig"], v["msg"]) for v in p2["violations"] if v["case"].get("sig") == case["sig"]]
    dtname = case["dtype"]
    t = DT[dtname]
    route = case.get("route", "vec")
    args = [np.array([float.fromhex(h)], dtype=t) for h in case["args"]]
    if dtname == "float64" and len(args) == 3:
        check64(part, fa, [tuple(float(a[0]) for a in args)])
    elif len(args) == 1:
        check_unary(part, fa, dtname, args[0], route=route)
    elif len(args) == 3:
        check3(part, fa, dtname, *args, route=route)
    else:
        check4(part, fa, dtname, *args, route=route)
    return [(v["sig"], v["msg"]) for v in part["violations"]]
