"""C03 — symmetries and cross-function identities of the algorithms hold bit for bit.

Oracle-free: every identity compares the expanded implementation (mc.expand + mc.interp) with
itself at a transformed argument.  Enumerated: the full product S x S of a component lattice S that
is closed under negation (all binades incl. subnormal ones x mantissa patterns, special values,
threshold constants of the graphs +-2 ULP); real functions on a coset of all float32 patterns
(thorough: all 2^32) and the float64 binade lattice.
Exclusions (literal reading of the statement): conj: im z = +-0.  All other identities: inputs that
lie on a branch cut of a function involved and whose deciding component is +-0.
Every mismatch is classified by (identity, function, dtype, zero/inf class of the input
components, which output component differs and whether only the sign of a zero differs).
"""

from __future__ import annotations

import numpy as np

from mc import expand, interp, lattice
from mc.harness import add_violation, bump, new_part, setup_repo_import
from mc.oracle import FMT, from_ordinal, ordinal

PROPERTY = "C03"
LEVEL = "exploration"
MOD = "mc.checks.c03"

CFUNCS = "absolute acos acosh asin asinh atan atanh exp log log2 log10 log1p sqrt square".split()
ODD = ["asin", "asinh", "atan", "atanh"]
RFUNCS = ["absolute", "acos", "acosh", "asin", "asinh", "square"]
CT = {"complex64": (np.complex64, np.float32), "complex128": (np.complex128, np.float64)}

_I = {}
# documented Context parameters that select algorithm variants (algorithms.py: safe_min_limit, safe_max_limit_coefficient,
# use_fast2sum).  The symmetries must hold for every variant; PARAMS[0] (defaults) is what the bulk enumeration uses.
PARAMS = [None, {"safe_min_limit": 1}, {"safe_min_limit": 10, "safe_max_limit_coefficient": 0.5}, {"safe_max_limit_coefficient": 1}, {"use_fast2sum": True}, {"use_fast2sum": False}]
CURRENT = [0]


def ptag():
    p_ = PARAMS[CURRENT[0]]
    return "" if not p_ else ":parameters[" + ",".join(f"{k}={v}" for k, v in sorted(p_.items())) + "]"


def get_interp(fa, name, dtype):
    key = (name, np.dtype(dtype).name, CURRENT[0])
    if key not in _I:
        try:
            _I[key] = interp.Interp(fa, expand.expanded_graph(fa, name, dtype, parameters=PARAMS[CURRENT[0]]))
        except Exception as e:
            _I[key] = e
    return _I[key]


def graph_constants(fa, names, dtype, ft):
    """every numeric constant of the expanded graphs evaluated in the component type (thresholds)."""
    vals = []
    for n in names:
        it = get_interp(fa, n, dtype)
        if isinstance(it, Exception):
            continue
        z = np.zeros(1, dtype=dtype)
        try:
            _, ex = it.run(z, return_env=True)
        except Exception:
            continue
        env = ex["env"]
        for e in it.order:
            if e.kind == "constant":
                v = env.get(id(e))
                if v is not None and not isinstance(v, interp.Cx):
                    a = np.asarray(v)
                    if a.dtype.kind == "f" and a.size == 1 and np.isfinite(a).all():
                        vals.append(float(a.reshape(-1)[0]))
    return sorted(set(vals))


def component_lattice(fa, cname, size, seed):
    ct, ft = CT[cname]
    f = FMT[np.dtype(ft).name]
    nb = (f["emax"] - f["emin"] + f["p"] + 1)
    per = max(2, size // (2 * nb) + 1)
    estride = 1
    while 2 * nb * 3 // estride > size and estride < 64:
        estride *= 2
    per = max(3, (size * estride) // (2 * nb))
    lat = lattice.binade_lattice(ft, mantissas=per, estride=estride, ephase=seed % estride, seed=seed, include_inf=True)
    th = graph_constants(fa, CFUNCS, ct, ft)
    thn = lattice.neighbours(np.array(th + [1.0, 2.0, 0.5], dtype=ft), ft, 2)
    sp = lattice.specials(ft)
    a = np.concatenate([lat, thn, sp])
    a = np.concatenate([a, -a])
    bits = np.unique(a.view(f["ui"]))
    v = bits.view(ft)
    return v[~np.isnan(v)]


def eval_c(fa, name, ct, X, Y):
    it = get_interp(fa, name, ct)
    if isinstance(it, Exception):
        raise it
    z = np.empty(X.shape, dtype=ct)
    z.real = X
    z.imag = Y
    w = it.run(z)
    return np.asarray(w.real), np.asarray(w.imag)


def bits_equal(a, b):
    """bitwise equality of float arrays, NaN matching NaN."""
    ui = FMT[a.dtype.name]["ui"]
    return (a.view(ui) == b.view(ui)) | (np.isnan(a) & np.isnan(b))


def only_zero_sign(a, b):
    return (a == 0) & (b == 0)


def zclass(v):
    return np.where(v == 0, 0, np.where(np.isinf(v), 2, 1))  # 0 zero, 1 finite non-zero, 2 inf


ZN = {0: "zero", 1: "finite", 2: "inf"}


def report(part, ident, fname, cname, X, Y, got, want, mask, extra=""):
    """got/want: (re, im) pairs of arrays; mask: in-scope points."""
    for comp, g, w in (("re", got[0], want[0]), ("im", got[1], want[1])):
        bad = mask & ~bits_equal(g, w)
        if not bad.any():
            continue
        idx = np.flatnonzero(bad)
        xc, yc = zclass(X[idx]), zclass(Y[idx])
        zs = only_zero_sign(g[idx], w[idx])
        keys = xc * 100 + yc * 10 + zs
        for kv in np.unique(keys):
            sel = idx[keys == kv]
            xcl, ycl, z1 = ZN[int(kv) // 100], ZN[(int(kv) // 10) % 10], int(kv) % 10
            sig = f"{ident}:{fname}:{cname}:in[{xcl},{ycl}]:{comp}:{'sign-of-zero' if z1 else 'value'}" + ptag()
            part["counters"]["viol:" + sig] = part["counters"].get("viol:" + sig, 0) + int(len(sel)) - min(3, len(sel))
            for i in sel[:3]:
                add_violation(part, sig, f"{ident} {fname} [{cname}] z=({X[i]!r},{Y[i]!r}): {comp} = {g[i]!r}, identity requires {w[i]!r} {extra}",
                              {"kind": "complex", "ident": ident, "func": fname, "dtype": cname, "x": float(X[i]).hex(), "y": float(Y[i]).hex(), "params": CURRENT[0]})


def cut_mask(fname, X, Y):
    """points on a branch cut of fname whose deciding component is +-0."""
    y0, x0 = Y == 0, X == 0
    ax, ay = np.abs(X), np.abs(Y)
    if fname in ("asin", "acos"):
        return y0 & (ax > 1)
    if fname == "atanh":
        return y0 & (ax >= 1)
    if fname == "asinh":
        return x0 & (ay > 1)
    if fname == "atan":
        return x0 & (ay >= 1)
    if fname == "acosh":
        return y0 & (X < 1)
    if fname in ("log", "log2", "log10", "sqrt"):
        return y0 & (X <= 0)
    if fname == "log1p":
        return y0 & (X <= -1)
    return np.zeros(X.shape, bool)


def check_block(part, fa, cname, X, Y, idents=None):
    ct, ft = CT[cname]
    n = X.size
    cache = {}

    def F(name, A, B, tag):
        k = (name, tag)
        if k not in cache:
            cache[k] = eval_c(fa, name, ct, A, B)
        return cache[k]

    def want(i):
        return idents is None or i in idents

    ynz = Y != 0
    for fname in CFUNCS:
        try:
            w = F(fname, X, Y, "z")
        except Exception as e:
            add_violation(part, f"evaluate:{fname}:{cname}:raises", f"{fname} {cname}: {type(e).__name__}: {e}", {"kind": "complex", "ident": "evaluate", "func": fname, "dtype": cname, "x": float(X[0]).hex(), "y": float(Y[0]).hex()})
            continue
        part["evaluations"] += n
        if want("conj"):
            wc = F(fname, X, -Y, "conj")
            if fname == "absolute":  # real-valued: conj f = f
                report(part, "conj", fname, cname, X, Y, (wc[0], wc[0]), (w[0], w[0]), ynz)
            else:
                report(part, "conj", fname, cname, X, Y, wc, (w[0], -w[1]), ynz)
        if fname in ODD and want("odd"):
            wn = F(fname, -X, -Y, "neg")
            m = ~cut_mask(fname, X, Y)
            report(part, "odd", fname, cname, X, Y, wn, (-w[0], -w[1]), m)
        if fname == "square" and want("even"):
            wn = F(fname, -X, -Y, "neg")
            report(part, "even", fname, cname, X, Y, wn, w, np.ones(n, bool))
    part["nontrivial"] += int((ynz & (X != 0) & np.isfinite(X) & np.isfinite(Y)).sum())
    # rotations: asinh(z) = -i asin(i z); atan(z) = -i atanh(i z);  i z = (-y, x),  -i w = (w.im, -w.re)
    for child, parent in (("asinh", "asin"), ("atan", "atanh")):
        if not want("rot:" + child):
            continue
        try:
            wc = F(child, X, Y, "z")
            wp = F(parent, -Y, X, "iz")
        except Exception:
            continue
        m = ~cut_mask(child, X, Y) & ~cut_mask(parent, -Y, X)
        report(part, f"{child}(z)=-i*{parent}(iz)", child, cname, X, Y, wc, (wp[1], -wp[0]), m)
    if want("acosh"):
        try:
            wa, wc = F("acosh", X, Y, "z"), F("acos", X, Y, "z")
            neg = Y < 0
            exp_re = np.where(neg, wc[1], -wc[1])
            exp_im = np.where(neg, -wc[0], wc[0])
            m = ~cut_mask("acosh", X, Y) & ~cut_mask("acos", X, Y)
            report(part, "acosh(z)=+-i*acos(z)", "acosh", cname, X, Y, wa, (exp_re, exp_im), m)
        except Exception:
            pass
    if want("acos-asin"):
        try:
            wc, ws = F("acos", X, Y, "z"), F("asin", X, Y, "z")
            m = ~cut_mask("acos", X, Y)
            report(part, "imag(acos)=-imag(asin)", "acos", cname, X, Y, (ws[0], wc[1]), (ws[0], -ws[1]), m)
        except Exception:
            pass


def w_block(task):
    fa = setup_repo_import()
    part = new_part()
    cname = task["dtype"]
    ct, ft = CT[cname]
    S = np.array(task["S_bits"], dtype=np.uint64).astype(FMT[np.dtype(ft).name]["ui"]).view(ft)
    rows = S[task["rows"][0]:task["rows"][1]]
    if not len(rows):
        return part
    X, Y = np.meshgrid(rows, S, indexing="ij")
    check_block(part, fa, cname, X.ravel(), Y.ravel())
    if task.get("param_rows"):
        Xp, Yp = np.meshgrid(rows[:1], S, indexing="ij")
        for pi in range(1, len(PARAMS)):
            CURRENT[0] = pi
            try:
                check_block(part, fa, cname, Xp.ravel(), Yp.ravel())
            finally:
                CURRENT[0] = 0
    part["samples"].append({"block": cname, "x0": float(rows[0]).hex(), "n_x": int(len(rows)), "n_y": int(len(S))})
    return part


# ------------------------------------------------------------------ real functions


def w_real(task):
    fa = setup_repo_import()
    part = new_part()
    dtname = task["dtype"]
    ft = {"float32": np.float32, "float64": np.float64}[dtname]
    if "coset" in task:
        k, r, lo, hi = task["coset"]
        bits = np.arange(lo, hi, dtype=np.uint64)
        bits = bits[(bits % (1 << k)) == r].astype(np.uint32)
        x = bits.view(np.float32)
    else:
        x = np.array(task["bits"], dtype=np.uint64).astype(FMT[dtname]["ui"]).view(ft)
    x = x[~np.isnan(x)]
    if not len(x):
        return part
    variants = [(fname, 0) for fname in ("asin", "asinh", "square")]
    if "coset" not in task or task["coset"][2] == 0:
        variants += [("asinh", pi) for pi in range(1, len(PARAMS))]
    for fname, pi in variants:
        CURRENT[0] = pi
        it = get_interp(fa, fname, ft)
        if isinstance(it, Exception):
            add_violation(part, f"evaluate:{fname}:{dtname}:raises", f"{type(it).__name__}: {it}", {"kind": "real", "func": fname, "dtype": dtname, "x": float(x[0]).hex()})
            continue
        a = np.asarray(it.run(x))
        b = np.asarray(it.run(-x))
        part["evaluations"] += len(x)
        wantv = a if fname == "square" else -a
        bad = ~bits_equal(b, wantv)
        if bad.any():
            idx = np.flatnonzero(bad)
            zc = zclass(x[idx])
            zs = only_zero_sign(b[idx], wantv[idx])
            keys = zc * 10 + zs
            for kv in np.unique(keys):
                sel = idx[keys == kv]
                sig = f"{'even' if fname == 'square' else 'odd'}:real_{fname}:{dtname}:in[{ZN[int(kv) // 10]}]:{'sign-of-zero' if int(kv) % 10 else 'value'}" + ptag()
                part["counters"]["viol:" + sig] = part["counters"].get("viol:" + sig, 0) + int(len(sel)) - min(3, len(sel))
                for i in sel[:3]:
                    add_violation(part, sig, f"real {fname}({-x[i]!r}) = {b[i]!r} but f(x) = {a[i]!r}" + ptag(), {"kind": "real", "func": fname, "dtype": dtname, "x": float(x[i]).hex(), "params": CURRENT[0]})
    CURRENT[0] = 0
    part["nontrivial"] += int((x != 0).sum())
    part["samples"].append({"real": dtname, "x0": float(x[0]).hex(), "n": int(len(x))})
    return part


def run(run):
    thorough = run.tier == "thorough"
    fa = setup_repo_import()
    tasks = []
    for cname in ("complex64", "complex128"):
        ct, ft = CT[cname]
        for n in CFUNCS:
            get_interp(fa, n, ct)
        S = component_lattice(fa, cname, 2400 if thorough else 700, run.seed)
        run.counters[f"S_{cname}"] = int(len(S))
        Sb = [int(b) for b in S.view(FMT[np.dtype(ft).name]["ui"]).astype(np.uint64)]
        step = 4 if thorough else 8
        for i in range(0, len(Sb), step):
            tasks.append(dict(dtype=cname, S_bits=Sb, rows=[i, i + step], param_rows=True))
    for ft in (np.float32, np.float64):
        for n in ("asin", "asinh", "square"):
            get_interp(fa, n, ft)
    run.map(MOD, "w_block", tasks)
    tasks = []
    k = 0 if thorough else 5
    r = (run.seed * 2654435761 + 7) % (1 << k)
    nchunk = 256
    span = (1 << 32) // nchunk
    for i in range(nchunk):
        tasks.append(dict(dtype="float32", coset=[k, r, i * span, (i + 1) * span]))
    l32 = np.concatenate([lattice.binade_lattice(np.float32, mantissas=8, seed=run.seed, include_inf=True), lattice.specials(np.float32)])
    b32 = [int(x) for x in np.unique(l32.view(np.uint32))]
    tasks.append(dict(dtype="float32", bits=b32))
    lat = lattice.binade_lattice(np.float64, mantissas=64 if thorough else 16, seed=run.seed, include_inf=True)
    b = [int(x) for x in lat.view(np.uint64)]
    for i in range(16):
        tasks.append(dict(dtype="float64", bits=b[i::16]))
    run.map(MOD, "w_real", tasks, chunksize=4)
    run.coverage_extra["float32_real_patterns"] = "all 2^32" if thorough else f"coset mod 2^{k}"
    run.rule = (
        "complex: full product S x S of a negation-closed component lattice (all binades incl. subnormal x mantissa patterns, specials, every "
        "numeric constant of the expanded graphs +-2 ULP, +-inf) for 14 functions: conj symmetry (im != 0), oddness of asin/asinh/atan/atanh, "
        "evenness of square, asinh=-i asin(iz), atan=-i atanh(iz), acosh=+-i acos, imag acos=-imag asin; real asin/asinh/square over "
        + ("all float32 patterns" if thorough else "a coset of float32 patterns") + " and a float64 binade lattice; comparison on raw bit patterns, NaN==NaN; "
        "non-trivial = points with both components finite and non-zero"
    )
    run.exhaustive = True
    run.coverage_extra["exhaustive_scope"] = "complete product lattice (not all complex numbers); real float32 complete in the thorough tier"
    run.assumptions = ["mc.interp is bit-identical to the emitted NumPy code (re-measured by the C01/C05 conformance replays)"]


def replay(case):
    fa = setup_repo_import()
    part = new_part()
    if case["kind"] == "complex":
        cname = case["dtype"]
        ct, ft = CT[cname]
        X = np.array([float.fromhex(case["x"])], dtype=ft)
        Y = np.array([float.fromhex(case["y"])], dtype=ft)
        CURRENT[0] = int(case.get("params") or 0)
        try:
            check_block(part, fa, cname, X, Y)
        finally:
            CURRENT[0] = 0
        part["violations"] = [v for v in part["violations"] if v["case"].get("ident") == case.get("ident") and v["case"].get("func") == case.get("func")]
    else:
        ft = {"float32": np.float32, "float64": np.float64}[case["dtype"]]
        bits = int(np.array(float.fromhex(case["x"]), dtype=ft).view(FMT[case["dtype"]]["ui"]))
        part = w_real(dict(dtype=case["dtype"], bits=[bits]))
        part["violations"] = [v for v in part["violations"] if int(v["case"].get("params") or 0) == int(case.get("params") or 0)]
    return [(v["sig"], v["msg"]) for v in part["violations"]]
