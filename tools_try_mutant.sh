#!/bin/sh
# usage: tools_try_mutant.sh <patch.diff> "<check ids>" [tier]
# applies the patch to a scratch export of /repo HEAD (outside /repo and /verif), runs the checks against it, removes it
P=$(readlink -f "$1"); IDS="$2"; TIER=${3:-quick}
D=$(mktemp -d /var/tmp/mut_XXXXXX)
git -C /repo archive HEAD | tar -x -C "$D" || exit 2
( cd "$D" && git init -q . 2>/dev/null && git apply --whitespace=nowarn "$P" ) || { echo "PATCH DOES NOT APPLY"; rm -rf "$D"; exit 2; }
cd /verif
for id in $IDS; do
  out=$(FA_REPO="$D" VERIF_NO_EVIDENCE=1 timeout 2400 ./check $id --tier $TIER 2>&1)
  rc=$?
  echo "== $id rc=$rc $(echo "$out" | grep "^$id tier" | cut -c1-150)"
  echo "$out" | grep "signature" | sort | uniq -c | sort -rn | head -6
done
rm -rf "$D"
