"""Runner shared by all checks: sharding, violation bookkeeping, known findings, evidence.

A check module exposes

    PROPERTY = "C16"
    LEVEL = "exploration" | "model_checking"
    def run(run: Run) -> None          # enumerate, call run.record(...) / run.violation(...)
    def replay(case: dict) -> list     # re-evaluate one recorded case on the real code,
                                       # returns list of (signature, message) still failing

Workers (multiprocessing, fork) are plain module-level functions taking one JSON-able task and
returning a `Part` dict: {"evaluations": n, "nontrivial": n, "violations": [...], "samples": [...],
"counters": {...}}; `Run.map` merges them in deterministic task order.
"""

from __future__ import annotations

import contextlib
import fnmatch
import hashlib
import io
import json
import multiprocessing
import os
import sys
import time
import traceback

VERIF = os.path.dirname(os.path.dirname(os.path.abspath(__file__)))
FA_REPO = os.environ.get("FA_REPO", "/repo")
NPROC = int(os.environ.get("VERIF_NPROC", "16"))
MAX_REPLAYS_PER_SIG = 3


def setup_repo_import():
    """Make `functional_algorithms` come from $FA_REPO's working tree and nowhere else."""
    if FA_REPO not in sys.path[:1]:
        sys.path.insert(0, FA_REPO)
    os.environ["PATH"] = "/venv/bin:" + os.environ.get("PATH", "")
    import warnings

    warnings.filterwarnings("ignore")
    with quiet():
        import functional_algorithms as fa
    real = os.path.realpath(fa.__file__)
    assert real.startswith(os.path.realpath(FA_REPO) + os.sep), (real, FA_REPO)
    return fa


@contextlib.contextmanager
def quiet():
    """Swallow the package's chatter (`TODO:` / `NOTIMPL:` prints, clang-format notices)."""
    buf = io.StringIO()
    with contextlib.redirect_stdout(buf), contextlib.redirect_stderr(buf):
        yield buf


def new_part():
    return {"evaluations": 0, "nontrivial": 0, "violations": [], "samples": [], "counters": {}}


def bump(part, key, n=1):
    part["counters"][key] = part["counters"].get(key, 0) + n


def add_violation(part, sig, msg, case):
    """sig: narrow class of the failure (used for known-finding matching and dedup);
    case: JSON-able dict sufficient for `replay`."""
    vs = part["violations"]
    # keep at most a few concrete cases per signature per part, but count all
    k = "viol:" + sig
    part["counters"][k] = part["counters"].get(k, 0) + 1
    if sum(1 for v in vs if v["sig"] == sig) < MAX_REPLAYS_PER_SIG:
        vs.append({"sig": sig, "msg": msg, "case": case})


def _worker_entry(args):
    modname, fname, task = args
    import importlib

    mod = importlib.import_module(modname)
    try:
        return getattr(mod, fname)(task)
    except Exception:
        part = new_part()
        add_violation(
            part,
            "harness-exception",
            "worker raised: " + traceback.format_exc()[-2000:],
            {"kind": "harness", "fn": fname, "task": _jsonable(task)},
        )
        return part


def _jsonable(x):
    try:
        t = json.dumps(x)
        return x if len(t) < 2000 else t[:2000] + "...(truncated)"
    except Exception:
        return repr(x)[:2000]


class Run:
    def __init__(self, prop, level, tier, seed):
        self.prop = prop
        self.level = level
        self.tier = tier
        self.seed = seed
        self.t0 = time.time()
        self.evaluations = 0
        self.nontrivial = 0
        self.violations = []  # dicts sig,msg,case
        self.samples = []
        self.counters = {}
        self.sets = {}
        self.coverage_extra = {}
        self.assumptions = []
        self.rule = ""
        self.exhaustive = None
        self._pool = None

    # -- parallel map -----------------------------------------------------
    def pool(self):
        if self._pool is None:
            ctx = multiprocessing.get_context("fork")
            self._pool = ctx.Pool(NPROC)
        return self._pool

    def map(self, modname, fname, tasks, chunksize=1):
        tasks = list(tasks)
        if not tasks:
            return []
        if NPROC <= 1 or len(tasks) == 1:
            parts = [_worker_entry((modname, fname, t)) for t in tasks]
        else:
            parts = self.pool().map(_worker_entry, [(modname, fname, t) for t in tasks], chunksize)
        for p in parts:
            self.merge(p)
        return parts

    def merge(self, part):
        self.evaluations += part.get("evaluations", 0)
        self.nontrivial += part.get("nontrivial", 0)
        for v in part.get("violations", []):
            self.violations.append(v)
        for s in part.get("samples", []):
            if len(self.samples) < 12:
                self.samples.append(s)
        for k, n in part.get("counters", {}).items():
            if isinstance(n, (int, float)):
                self.counters[k] = self.counters.get(k, 0) + n
            elif isinstance(n, list):
                self.sets.setdefault(k, set()).update(n)
            else:
                self.counters.setdefault(k, n)

    def close(self):
        if self._pool is not None:
            self._pool.close()
            self._pool.join()
            self._pool = None


# -- known findings ----------------------------------------------------------


def load_known():
    path = os.path.join(VERIF, "known_findings.json")
    if not os.path.exists(path):
        return []
    with open(path) as f:
        data = json.load(f)
    return data.get("findings", [])


_GLOBS = {}


def _glob(pat):
    """only `*` is a wildcard; every other character (brackets included) is literal"""
    if pat not in _GLOBS:
        import re

        _GLOBS[pat] = re.compile(".*".join(re.escape(x) for x in pat.split("*")))
    return _GLOBS[pat]


def match_known(prop, sig, known):
    for k in known:
        if k.get("property") != prop or k.get("status") != "known":
            continue
        if _glob(k["signature"]).fullmatch(sig):
            return k
    return None


# -- finishing ----------------------------------------------------------------


def finish(run: Run):
    run.close()
    known = load_known()
    by_sig = {}
    for v in run.violations:
        by_sig.setdefault(v["sig"], []).append(v)
    new_sigs, known_hit = [], {}
    for sig, vs in sorted(by_sig.items()):
        k = match_known(run.prop, sig, known)
        if k is None:
            new_sigs.append(sig)
        else:
            known_hit.setdefault(k["signature"], (k, []))[1].append(sig)
    # KNOWN-FINDING lines (one per listed finding that was observed)
    for ksig, (k, sigs) in sorted(known_hit.items()):
        n = sum(run.counters.get("viol:" + s, len(by_sig[s])) for s in sigs)
        print(f"KNOWN-FINDING: property={run.prop} {k['signature']} :: {k['what']} (observed {n}x)")
    nviol = 0
    os.makedirs(os.path.join(VERIF, "replays"), exist_ok=True)
    for sig in new_sigs:
        for i, v in enumerate(by_sig[sig][:MAX_REPLAYS_PER_SIG]):
            nviol += 1
            safe = "".join(c if c.isalnum() or c in "-_.=" else "_" for c in sig)[:60]
            h = hashlib.sha1(sig.encode()).hexdigest()[:8]
            path = os.path.join(VERIF, "replays", f"{run.prop}-{safe}-{h}-{i}.json")
            with open(path, "w") as f:
                json.dump({"property": run.prop, "sig": sig, "msg": v["msg"], "case": v["case"]}, f, indent=1, default=repr)
            print(f"VIOLATION property={run.prop} replay={path}")
            print(f"  signature: {sig}")
            print(f"  {v['msg'][:600]}")
    total_new = sum(run.counters.get("viol:" + s, len(by_sig[s])) for s in new_sigs)
    cov = {
        "evaluations": int(run.evaluations),
        "distinct_nontrivial": int(run.nontrivial),
        "rule": run.rule,
        "samples": run.samples[:12] or ["(none recorded)"],
    }
    if run.exhaustive is not None:
        cov["exhaustive"] = bool(run.exhaustive)
    cov["counters"] = {k: v for k, v in sorted(run.counters.items()) if not k.startswith("viol:")}
    cov["violation_signatures_new"] = new_sigs
    cov["known_findings_observed"] = sorted(known_hit)
    cov.update(run.coverage_extra)
    ev = {
        "property_id": run.prop,
        "tier": run.tier,
        "seed": int(run.seed),
        "level": run.level,
        "coverage": cov,
        "assumptions": run.assumptions,
        "wall_s": round(time.time() - run.t0, 2),
        "violations": int(total_new),
    }
    validate_evidence(ev)
    if os.environ.get("VERIF_NO_EVIDENCE") != "1":
        os.makedirs(os.path.join(VERIF, "evidence"), exist_ok=True)
        with open(os.path.join(VERIF, "evidence", f"{run.prop}.json"), "w") as f:
            json.dump(ev, f, indent=1, default=repr)
            f.write("\n")
    print(
        f"{run.prop} tier={run.tier} seed={run.seed} evaluations={run.evaluations} "
        f"nontrivial={run.nontrivial} new_violation_classes={len(new_sigs)} "
        f"known={len(known_hit)} wall={ev['wall_s']}s"
    )
    return 1 if new_sigs else 0


def validate_evidence(ev):
    """Minimal in-process validation mirroring EVIDENCE.schema.json (jsonschema is only in the
    tooling venv; the repo's venv is what the checks run under)."""
    for k in ("property_id", "tier", "seed", "level", "coverage", "wall_s"):
        assert k in ev, k
    assert ev["tier"] in ("quick", "thorough")
    c = ev["coverage"]
    if ev["level"] == "model_checking" and all(k in c for k in ("states", "transitions", "traces_validated_against_impl")):
        assert c["states"] >= 1 and c["transitions"] >= 1 and len(c["samples"]) >= 1
    else:
        assert c["evaluations"] >= 1, "no evaluations"
        assert c["distinct_nontrivial"] >= 2, "distinct_nontrivial < 2"
        assert isinstance(c["rule"], str) and len(c["samples"]) >= 1


def main(argv=None):
    import argparse
    import importlib

    ap = argparse.ArgumentParser()
    ap.add_argument("prop")
    ap.add_argument("--tier", default=os.environ.get("VERIF_TIER", "quick"), choices=["quick", "thorough"])
    ap.add_argument("--seed", type=int, default=int(os.environ.get("VERIF_SEED", "0")))
    ap.add_argument("--replay")
    a = ap.parse_args(argv)
    setup_repo_import()
    mod = importlib.import_module(f"mc.checks.{a.prop.lower()}")
    if a.replay:
        with open(a.replay) as f:
            rec = json.load(f)
        res = mod.replay(rec["case"])
        res2 = mod.replay(rec["case"])
        if [r[0] for r in res] != [r[0] for r in res2]:
            print("REPLAY NONDETERMINISTIC", res, res2)
            return 2
        known = load_known()
        rc = 0
        for sig, msg in res:
            if match_known(a.prop, sig, known):
                print(f"KNOWN-FINDING: property={a.prop} {sig} :: {msg[:300]}")
            else:
                print(f"VIOLATION property={a.prop} replay={a.replay}")
                print(f"  signature: {sig}\n  {msg[:600]}")
                rc = 1
        if not res:
            print("replay: case no longer violates")
        return rc
    run = Run(a.prop, mod.LEVEL, a.tier, a.seed)
    try:
        mod.run(run)
    except Exception:
        run.close()
        part = new_part()
        add_violation(part, "harness-exception", traceback.format_exc()[-3000:], {"kind": "harness"})
        run.merge(part)
        # a crash of the checker is not evidence of anything: fail loudly
        print(traceback.format_exc())
        print(f"CHECK-ERROR property={a.prop}")
        return 3
    return finish(run)


if __name__ == "__main__":
    sys.exit(main())
