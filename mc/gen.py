"""Shared request catalogue: every (target, function, signature) of the targets' `trace_arguments`
tables, generated with the pipeline of results/update.py."""

from __future__ import annotations

import hashlib

from mc.harness import quiet

TARGETS = ["cpp", "numpy", "python", "stablehlo", "xla_client"]


def requests(fa, targets=TARGETS):
    out = []
    for tname in targets:
        target = getattr(fa.targets, tname)
        for fname in target.trace_arguments:
            for i, atypes in enumerate(target.trace_arguments[fname]):
                out.append((tname, fname, i))
    return out


def build_graph(fa, req):
    """the traced, expanded and simplified graph of a request (may raise NotImplementedError)."""
    tname, fname, i = req
    target = getattr(fa.targets, tname)
    atypes = target.trace_arguments[fname][i]
    enable_alt, dct = (True, "FloatType") if tname == "xla_client" else (False, None)
    ctx = fa.Context(paths=[fa.algorithms], enable_alt=enable_alt, default_constant_type=dct)
    func = getattr(fa.algorithms, fname)
    graph = ctx.trace(func, *atypes).implement_missing(target).simplify()  # exactly as results/update.py
    graph.props.update(name=f"{fname}_{i}")
    return graph, target


def generate(fa, req, debug=0):
    """text of a request, or a stable description of the exception it raises."""
    with quiet():
        try:
            graph, target = build_graph(fa, req)
            return graph.tostring(target, debug=debug) if debug else graph.tostring(target)
        except NotImplementedError as e:
            return f"!NotImplementedError: {e}"
        except Exception as e:  # any other exception is reported as text too (and judged by C05/C06)
            return f"!{type(e).__name__}: {e}"


def sha(text):
    return hashlib.sha256(text.encode()).hexdigest()[:20]


def global_state(fa):
    """the process-global values the C09 anchors name (for counting distinct global states)."""
    import functional_algorithms.expr as ex
    import functional_algorithms.utils as ut

    tmp = ex.make_symbol.__defaults__[0][0]
    reg = tuple(sorted((d, tuple(sorted(r))) for d, r in fa.algorithms.definition._registry.items()))
    warn = len(ut._warn_once_cache)
    vf = len(ut.numpy_with_mpmath._vfunc_cache)
    return (tmp, hash(reg) & 0xFFFF, warn, vf)
