#!/bin/sh
# Re-runs, for every /verif/seeded/<name>/ (or the names given), the check named in the seed's id against a scratch
# export of /repo HEAD with the seed's patch applied.  Prints one line per seed: CAUGHT (rc=1 with a VIOLATION line)
# or MISSED.  Scratch copies live under /var/tmp and are removed straight away.  /repo itself is never touched.
# usage: tools_verify_seeds.sh [tier] [seed names...]
cd /verif
TIER=${1:-quick}; [ $# -gt 0 ] && shift
NAMES="$@"; [ -z "$NAMES" ] && NAMES=$(ls seeded)
for name in $NAMES; do
  id=$(echo "$name" | cut -d- -f1)
  # a seed may name the checks that are expected to see it (one per line / blank separated); default: the check of its property
  ids="$id"; [ -f seeded/$name/checks.txt ] && ids=$(cat seeded/$name/checks.txt)
  D=$(mktemp -d /var/tmp/seedv_XXXXXX)
  git -C /repo archive HEAD | tar -x -C "$D"
  if ! ( cd "$D" && git init -q . && git apply --whitespace=nowarn /verif/seeded/$name/patch.diff ); then
    echo "$name PATCH-DOES-NOT-APPLY"; rm -rf "$D"; continue
  fi
  res="MISSED"; who=""
  for cid in $ids; do
    out=$(FA_REPO="$D" VERIF_NO_EVIDENCE=1 timeout 7200 ./check $cid --tier $TIER 2>&1); rc=$?
    nv=$(echo "$out" | grep -c "^VIOLATION property=$cid")
    sig=$(echo "$out" | grep "signature:" | sort -u | head -3 | sed 's/ *signature: //' | tr '\n' '|')
    if [ $rc -eq 1 ] && [ $nv -gt 0 ]; then res="CAUGHT"; who="$who $cid(violations=$nv sig=$sig)"; else who="$who $cid(rc=$rc)"; fi
  done
  echo "$name $res by$who ($TIER)"
  rm -rf "$D"
done
