#!/bin/sh
# Re-runs, for every /verif/seeded/<name>/ (or the names given), the check named in the seed's id against a scratch
# export of /repo HEAD with the seed's patch applied.  Prints one line per seed: CAUGHT (rc=1 with a VIOLATION line)
# or MISSED.  Scratch copies live under /var/tmp and are removed straight away.  /repo itself is never touched.
# usage: tools_verify_seeds.sh [tier] [seed names...]
cd /verif
TIER=${1:-quick}; [ $# -gt 0 ] && shift
NAMES="$@"; [ -z "$NAMES" ] && NAMES=$(ls seeded)
for name in $NAMES; do
  id=$(echo "$name" | cut -d- -f1)
  D=$(mktemp -d /var/tmp/seedv_XXXXXX)
  git -C /repo archive HEAD | tar -x -C "$D"
  if ! ( cd "$D" && git init -q . && git apply --whitespace=nowarn /verif/seeded/$name/patch.diff ); then
    echo "$name PATCH-DOES-NOT-APPLY"; rm -rf "$D"; continue
  fi
  out=$(FA_REPO="$D" VERIF_NO_EVIDENCE=1 timeout 7200 ./check $id --tier $TIER 2>&1); rc=$?
  nv=$(echo "$out" | grep -c "^VIOLATION property=$id")
  sig=$(echo "$out" | grep "signature:" | sort -u | head -3 | sed 's/ *signature: //' | tr '\n' '|')
  if [ $rc -eq 1 ] && [ $nv -gt 0 ]; then echo "$name CAUGHT by $id ($TIER) violations=$nv sig=$sig"; else echo "$name MISSED by $id ($TIER) rc=$rc"; fi
  rm -rf "$D"
done
