"""C16 — polynomial utilities are exact polynomial algebra.

Complete enumeration, in `fractions.Fraction`, of
  (a) every (implementation, scheme, reverse, degree) configuration with *generic* coefficients
      (ratios of distinct primes: any dropped, duplicated or misplaced term changes the value),
  (b) every coefficient vector of degree <= D over a small alphabet (zeros in every position),
  (c) Laurent forms for every first exponent m in [-len-1, 2],
  (d) ratio form <-> coefficient form,
  (e) multiply / add / derivative / taylorat against the definition,
  (f) divmod on all pairs over the alphabet.
Oracle: the definition  sum(c[i] * x**i).
"""

from __future__ import annotations

import itertools
import signal
from fractions import Fraction as F

from mc.harness import add_violation, bump, new_part, setup_repo_import

PROPERTY = "C16"
LEVEL = "exploration"
MOD = "mc.checks.c16"

PRIMES = [2, 3, 5, 7, 11, 13, 17, 19, 23, 29, 31, 37, 41, 43, 47, 53, 59, 61, 67, 71, 73, 79, 83, 89, 97,
          101, 103, 107, 109, 113, 127, 131, 137, 139, 149, 151, 157, 163, 167, 173, 179, 181, 191, 193,
          197, 199, 211, 223, 227, 229, 233, 239, 241, 251, 257, 263, 269, 271, 277, 281]
XS = [F(0), F(1), F(-1), F(1, 2), F(-3, 2), F(7, 5)]
ALPHA = [F(0), F(1), F(-1), F(2), F(1, 2)]
SCHEMES = ["none", "horner", "estrin", "balanced", "canonical", "custom:zero", "custom:third", "custom:kminus1", "custom:direct-below-5"]


def generic_coeffs(n, salt=0):
    """n distinct non-zero rationals p_i/q_i, alternating sign; generic for any finite identity."""
    out = []
    for i in range(n):
        p = PRIMES[(i + salt) % len(PRIMES)] + 300 * ((i + salt) // len(PRIMES))
        q = PRIMES[(2 * i + 7 + salt) % len(PRIMES)]
        out.append(F(p if i % 3 else -p, q))
    return out


def fr(x):
    return f"{x.numerator}/{x.denominator}"


def unfr(s):
    if isinstance(s, str):
        a, b = s.split("/")
        return F(int(a), int(b))
    return F(s)


def definition(coeffs, x, reverse=False, m=0):
    cs = list(reversed(coeffs)) if reverse else list(coeffs)
    s = F(0)
    for i, c in enumerate(cs):
        e = i + m
        if e < 0 and x == 0:
            return None
        s += c * (x ** e)
    return s


class ExactCtx:
    """Exact harness context for the `floating_point_algorithms` polynomial helpers."""

    def constant(self, value, like=None):
        return F(value)

    def reciprocal(self, z):
        return 1 / z


class _Timeout(BaseException):
    pass


def _alarm(*a):
    raise _Timeout()


def _schemes(fa, which):
    if which == "polynomial":
        m = fa.polynomial
    else:
        m = fa.floating_point_algorithms
    return {
        "none": None,
        "horner": m.horner_scheme,
        "estrin": m.estrin_dac_scheme,
        "balanced": m.balanced_dac_scheme,
        "canonical": m.canonical_scheme,
        # user-supplied schemes ("scheme is an int-to-int function"): any value in 0..k is a valid split point, 0 means
        # "evaluate this block directly"
        "custom:zero": lambda k, N: 0,
        "custom:third": lambda k, N: k // 3,
        "custom:kminus1": lambda k, N: k - 1,
        "custom:direct-below-5": lambda k, N: 0 if k <= 4 else k // 2,
    }


def call_eval(fa, impl, scheme, reverse, coeffs, x, m=0):
    """Return the implementation's value for one configuration (may raise)."""
    fpa = fa.floating_point_algorithms
    ctx = ExactCtx()
    if impl == "polynomial.fast_polynomial":
        return fa.polynomial.fast_polynomial(x, list(coeffs), reverse=reverse, scheme=_schemes(fa, "polynomial")[scheme])
    if impl == "fpa.fast_polynomial":
        return fpa.fast_polynomial(ctx, x, list(coeffs), reverse=reverse, scheme=_schemes(fa, "fpa")[scheme])
    if impl == "fpa.horner":
        return fpa.horner(ctx, x, list(coeffs), reverse=reverse)
    if impl == "fpa.laurent":
        return fpa.laurent(ctx, x, list(coeffs), m, reverse=reverse, scheme=_schemes(fa, "fpa")[scheme])
    if impl == "polynomial.rpolynomial":
        rc = fa.polynomial.asrpolynomial(list(coeffs), reverse=reverse)
        return fa.polynomial.rpolynomial(x, rc, reverse=reverse)
    if impl == "fpa.rpolynomial":
        rc = fa.polynomial.asrpolynomial(list(coeffs), reverse=reverse)
        return fpa.rpolynomial(ctx, x, rc, reverse=reverse)
    raise KeyError(impl)


def judge_eval(fa, part, case):
    impl, scheme, reverse, m = case["impl"], case["scheme"], case["reverse"], case.get("m", 0)
    coeffs = [unfr(c) for c in case["coeffs"]]
    x = unfr(case["x"])
    expected = definition(coeffs, x, reverse=reverse, m=m)
    if expected is None:
        bump(part, "skipped_pole")
        return None
    part["evaluations"] += 1
    lenclass = "len>=3" if len(coeffs) >= 3 else f"len={len(coeffs)}"
    if impl == "fpa.laurent":
        n = len(coeffs)
        mclass = "m=0" if m == 0 else "m>0" if m > 0 else "-len<m<0" if -m < n else "m<=-len"
        sig = f"{impl}:scheme={scheme}:{mclass}:{lenclass}"
    else:
        sig = f"{impl}:scheme={scheme}:{lenclass}"
    try:
        signal.signal(signal.SIGPROF, _alarm)
        signal.setitimer(signal.ITIMER_PROF, 20.0)
        try:
            got = call_eval(fa, impl, scheme, reverse, coeffs, x, m)
        finally:
            signal.setitimer(signal.ITIMER_PROF, 0)
    except _Timeout:
        add_violation(part, sig + ":does-not-finish", f"{impl}(scheme={scheme}, reverse={reverse}) on {len(coeffs)} coefficients did not finish within 20 s of CPU time (exact rational arithmetic; the other schemes take milliseconds)", case)
        return False
    except Exception as e:  # the utilities must not raise on a well-formed polynomial
        add_violation(part, sig + ":raises", f"{impl} raised {type(e).__name__}: {e} on {case}", case)
        return False
    if not (isinstance(got, (F, int)) and F(got) == expected):
        add_violation(part, sig, f"{impl}(scheme={scheme}, reverse={reverse}, m={m}) coeffs={case['coeffs']} x={case['x']}: got {got}, definition gives {expected}", case)
        return False
    return True


# ---------------------------------------------------------------- workers


def w_generic(task):
    """(a)+(c)+(d): generic coefficients over a list of degrees."""
    fa = setup_repo_import()
    part = new_part()
    degrees, salt = task["degrees"], task["salt"]
    seen = 0
    for deg in degrees:
        coeffs = generic_coeffs(deg + 1, salt)
        cs = [fr(c) for c in coeffs]
        for reverse in (False, True):
            for x in XS:
                for impl in ("polynomial.fast_polynomial", "fpa.fast_polynomial"):
                    for scheme in SCHEMES:
                        ok = judge_eval(fa, part, dict(kind="eval", impl=impl, scheme=scheme, reverse=reverse, coeffs=cs, x=fr(x)))
                        seen += ok is not None
                for impl in ("fpa.horner", "polynomial.rpolynomial", "fpa.rpolynomial"):
                    judge_eval(fa, part, dict(kind="eval", impl=impl, scheme="n/a", reverse=reverse, coeffs=cs, x=fr(x)))
                if deg <= task["laurent_maxdeg"]:
                    for m in range(-(deg + 1) - 1, 3):
                        for scheme in SCHEMES:
                            judge_eval(fa, part, dict(kind="eval", impl="fpa.laurent", scheme=scheme, reverse=reverse, coeffs=cs, x=fr(x), m=m))
        part["nontrivial"] += 1  # one distinct generic polynomial per degree
        if len(part["samples"]) < 2:
            part["samples"].append({"generic_coeffs_degree": deg, "coeffs": cs[:6], "schemes": SCHEMES, "xs": [fr(x) for x in XS]})
    return part


def w_small(task):
    """(b): every coefficient vector of given length over ALPHA, prefix-sharded by first coefficient."""
    fa = setup_repo_import()
    part = new_part()
    n, first = task["n"], task["first"]
    for rest in itertools.product(ALPHA, repeat=n - 1):
        coeffs = (ALPHA[first],) + rest
        cs = [fr(c) for c in coeffs]
        nz = sum(1 for c in coeffs if c != 0)
        for reverse in (False, True):
            for x in XS[1:]:
                for impl in ("polynomial.fast_polynomial", "fpa.fast_polynomial"):
                    for scheme in SCHEMES:
                        judge_eval(fa, part, dict(kind="eval", impl=impl, scheme=scheme, reverse=reverse, coeffs=cs, x=fr(x)))
                judge_eval(fa, part, dict(kind="eval", impl="fpa.horner", scheme="n/a", reverse=reverse, coeffs=cs, x=fr(x)))
                if nz == n:  # ratio form needs non-zero coefficients
                    judge_eval(fa, part, dict(kind="eval", impl="polynomial.rpolynomial", scheme="n/a", reverse=reverse, coeffs=cs, x=fr(x)))
                if n <= task["laurent_maxlen"]:
                    for m in range(-n - 1, 3):
                        judge_eval(fa, part, dict(kind="eval", impl="fpa.laurent", scheme="none", reverse=reverse, coeffs=cs, x=fr(x), m=m))
        if nz >= 2:
            part["nontrivial"] += 1
    if n >= 3:
        part["samples"].append({"small_vector_shard": {"len": n, "first": fr(ALPHA[first])}})
    return part


def poly_mul(P, Q):
    out = [F(0)] * (len(P) + len(Q) - 1) if P and Q else []
    for i, p in enumerate(P):
        for j, q in enumerate(Q):
            out[i + j] += p * q
    return out


def poly_add(P, Q):
    n = max(len(P), len(Q))
    return [(P[i] if i < len(P) else 0) + (Q[i] if i < len(Q) else 0) for i in range(n)]


def strip(P):
    P = list(P)
    while P and P[-1] == 0:
        P.pop()
    return P


def judge_algebra(fa, part, case):
    op = case["op"]
    P = [unfr(c) for c in case["P"]]
    Q = [unfr(c) for c in case.get("Q", [])]
    reverse = case.get("reverse", False)
    pol = fa.polynomial
    part["evaluations"] += 1
    sig = f"polynomial.{op}" + (":reverse" if reverse else "")
    rv = (lambda L: list(reversed(L))) if reverse else (lambda L: list(L))
    try:
        if op in ("multiply", "add"):
            # a bare number is accepted for either operand (the constant polynomial)
            a = P[0] if case.get("Pscalar") else rv(P)
            b = Q[0] if case.get("Qscalar") else rv(Q)
            if case.get("Pscalar") or case.get("Qscalar"):
                sig += ":number-operand-" + ("first" if case.get("Pscalar") else "second")
            got = getattr(pol, op)(a, b, reverse=reverse)
            exp = rv((poly_mul if op == "multiply" else poly_add)(P, Q))
            ok = list(map(F, got)) == exp
        elif op == "derivative":
            n = case["n"]
            got = pol.derivative(rv(P), n=n, reverse=reverse)
            exp = list(P)
            for _ in range(n):
                exp = [exp[i] * i for i in range(1, len(exp))]
            exp = rv(exp)
            ok = list(map(F, got)) == exp
            sig += f":n={n}"
        elif op == "taylorat":
            z0 = unfr(case["z0"])
            got = pol.taylorat(rv(P), z0, reverse=reverse)
            # definition: sum C_m (z - z0)^m == P(z): expand back and compare coefficients
            C = rv(list(map(F, got)))
            back = []
            powr = [F(1)]
            for c in C:
                back = poly_add(back, [c * t for t in powr])
                powr = poly_mul(powr, [-z0, F(1)])
            exp = "P(z) == sum C_m (z-z0)^m"
            ok = strip(back) == strip(P) and len(C) == len(P)
        elif op == "divmod":
            if not strip(Q):
                return
            got = pol.divmod(rv(P), rv(Q), reverse=reverse)
            Qt, R = rv(list(map(F, got[0]))), rv(list(map(F, got[1])))
            lhs = strip(poly_add(poly_mul(Qt, Q), R))
            exp = "P == Q*D + R and deg R < deg D"
            ok = lhs == strip(P) and len(strip(R)) < len(strip(Q))
            # quotient/remainder are unique: compare also with schoolbook long division
        else:
            raise KeyError(op)
    except Exception as e:
        add_violation(part, sig + ":raises", f"polynomial.{op} raised {type(e).__name__}: {e} on {case}", case)
        return
    if not ok:
        add_violation(part, sig, f"polynomial.{op}{' reverse' if reverse else ''}: P={case['P']} Q={case.get('Q')} extra={ {k: v for k, v in case.items() if k in ('n', 'z0')} } got {got}, expected {exp}", case)


def w_algebra(task):
    fa = setup_repo_import()
    part = new_part()
    maxlen_p, maxlen_q, first = task["maxlen_p"], task["maxlen_q"], task["first"]
    for n in range(1, maxlen_p + 1):
        for rest in itertools.product(ALPHA, repeat=n - 1):
            P = (ALPHA[first],) + rest
            Ps = [fr(c) for c in P]
            part["nontrivial"] += 1 if sum(1 for c in P if c != 0) >= 2 else 0
            for reverse in (False, True):
                for k in range(0, 4):
                    judge_algebra(fa, part, dict(kind="algebra", op="derivative", P=Ps, n=k, reverse=reverse))
                for z0 in (F(0), F(1), F(-1, 2), F(3)):
                    judge_algebra(fa, part, dict(kind="algebra", op="taylorat", P=Ps, z0=fr(z0), reverse=reverse))
                for m in range(1, maxlen_q + 1):
                    for Q in itertools.product(ALPHA, repeat=m):
                        Qs = [fr(c) for c in Q]
                        judge_algebra(fa, part, dict(kind="algebra", op="divmod", P=Ps, Q=Qs, reverse=reverse))
                        if n <= 3 and m <= 3:
                            judge_algebra(fa, part, dict(kind="algebra", op="multiply", P=Ps, Q=Qs, reverse=reverse))
                            judge_algebra(fa, part, dict(kind="algebra", op="add", P=Ps, Q=Qs, reverse=reverse))
                            for op_ in ("multiply", "add"):
                                if m == 1:
                                    judge_algebra(fa, part, dict(kind="algebra", op=op_, P=Ps, Q=Qs, reverse=reverse, Qscalar=True))
                                if n == 1:
                                    judge_algebra(fa, part, dict(kind="algebra", op=op_, P=Ps, Q=Qs, reverse=reverse, Pscalar=True))
    part["samples"].append({"algebra_shard_first_coeff": fr(ALPHA[first]), "maxlen_p": maxlen_p, "maxlen_q": maxlen_q})
    return part


def w_algebra_generic(task):
    """multiply/add/divmod/derivative/taylorat with generic coefficients of larger degree."""
    fa = setup_repo_import()
    part = new_part()
    for n, m in task["shapes"]:
        P = [fr(c) for c in generic_coeffs(n, 3)]
        Q = [fr(c) for c in generic_coeffs(m, 11)]
        part["nontrivial"] += 1
        for reverse in (False, True):
            for op in ("multiply", "add", "divmod"):
                judge_algebra(fa, part, dict(kind="algebra", op=op, P=P, Q=Q, reverse=reverse))
            for k in range(4):
                judge_algebra(fa, part, dict(kind="algebra", op="derivative", P=P, n=k, reverse=reverse))
            judge_algebra(fa, part, dict(kind="algebra", op="taylorat", P=P, z0="-7/3", reverse=reverse))
    return part


# ---------------------------------------------------------------- driver


def run(run):
    thorough = run.tier == "thorough"
    maxdeg = 40 if thorough else 14
    degrees = list(range(0, maxdeg + 1)) + ([498, 499, 500, 501, 502, 503] if thorough else [499, 500, 501])
    salt = run.seed % 50
    tasks = [dict(degrees=[d], salt=salt, laurent_maxdeg=12 if thorough else 6) for d in degrees]
    run.map(MOD, "w_generic", tasks)
    D = 6 if thorough else 5  # vector length (degree + 1)
    tasks = [dict(n=n, first=f, laurent_maxlen=4) for n in range(1, D + 1) for f in range(len(ALPHA))]
    run.map(MOD, "w_small", tasks)
    tasks = [dict(maxlen_p=5, maxlen_q=4 if thorough else 3, first=f) for f in range(len(ALPHA))]
    run.map(MOD, "w_algebra", tasks)
    shapes = [(n, m) for n in range(1, 13 if thorough else 8) for m in range(1, 7 if thorough else 5)]
    run.map(MOD, "w_algebra_generic", [dict(shapes=shapes[i::8]) for i in range(8)])
    run.rule = (
        "complete enumeration in Fraction: (implementation x scheme x reverse x degree) with generic prime-ratio "
        f"coefficients for degrees 0..{maxdeg} and around the 500-coefficient scheme switch at 6 points; every coefficient "
        f"vector of length <= {D} over {{0,1,-1,2,1/2}}; Laurent forms for every m in [-len-1,2]; all (P,D) pairs "
        "len P<=5 for divmod; non-trivial = distinct polynomials with >= 2 non-zero coefficients"
    )
    run.exhaustive = True
    run.assumptions = ["Python int/Fraction arithmetic is exact", "evaluation points and coefficient alphabet as listed in rule"]


def replay(case):
    fa = setup_repo_import()
    part = new_part()
    if case.get("kind") == "eval":
        judge_eval(fa, part, case)
    elif case.get("kind") == "algebra":
        judge_algebra(fa, part, case)
    return [(v["sig"], v["msg"]) for v in part["violations"]]
