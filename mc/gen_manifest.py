"""Regenerates /verif/MANIFEST.json from the table below (run: /venv/bin/python -m mc.gen_manifest)."""

import json
import os

VERIF = os.path.dirname(os.path.dirname(os.path.abspath(__file__)))

ALL = [f"C{i:02d}" for i in range(1, 20)]

# id -> (category, technique, level text, level note, design ref)
CHECKS = {
    "C01": ("exploration", "complete product lattices + select-signature boundary refinement (bisection of every region change to adjacent floats) + regular rate lattices, wide-precision filter with exact multiprecision decision",
            "For 14 algorithms x 2 precisions the package-expanded graph is evaluated on the full product of a boundary lattice (all binades, every graph constant +-2 ULP, specials, infinities), on both sides (+-2 ULP) of every region boundary found by bisecting branch-signature changes along lattice rows and columns, on two regular rate lattices, and on a unit-modulus lattice (|z| and |1+z| within 2 ULP of 1); every point not within 1 ULP of an independent wider-precision evaluation is decided by mpmath at two precisions (16-ULP bound, spurious NaN/inf/sign, Annex-G limits where two sources agree, 99.9 % target rate). A sub-lattice is replayed through the emitted NumPy code each run (bit identity).",
            "Trusts NumPy arithmetic, the wide-precision NumPy functions only as an accept-filter, mpmath under two-precision agreement. Inputs off the enumerated lattices are not covered.", "DESIGN.md §2 C01"),
    "C02": ("exploration", "exhaustive enumeration of all 2^32 float32 inputs (thorough) / a complete coset + threshold neighbourhoods (quick); float64 and hypot product lattices; exact multiprecision decision of every reported count",
            "Every float32 input of each unary real algorithm is evaluated (thorough tier) through an interpreter that is bit-identical to the emitted NumPy code; a float64 filter selects the points whose error could reach 3 ULP or that sit near a rounding boundary and those are decided exactly with mpmath at two precisions. NaN-set, limits at inf/0, the 4/5-ULP bound and the 1e-5 rate are judged on the complete enumeration.",
            "Trusts NumPy float32/float64 arithmetic (IEEE), float64 libm only as a filter, mpmath under two-precision agreement. float64 inputs and hypot pairs are covered on stated lattices only.", "DESIGN.md §2 C02"),
    "C03": ("exploration", "oracle-free bounded exhaustive comparison of the implementation with itself under each symmetry over complete product lattices and all float32 inputs",
            "Bit-pattern comparison of f(z) with f(conj z), f(-z), f(iz) and of derived functions with their parents on the full product S x S of a negation-closed component lattice (all binades, thresholds +-2 ULP, special values, infinities) for 14 functions x 2 precisions, and on all float32 inputs (thorough) for the real functions. No tolerance: a single differing bit outside the literally excluded branch-cut/zero cases decides.",
            "Trusts the interpreter's bit-identity with the emitted NumPy code (measured by C01's conformance replay). Inputs off the lattice are not covered.", "DESIGN.md §2 C03"),
    "C04": ("exploration", "bounded exhaustive program enumeration (all expression trees up to a size bound over the supported kinds and a leaf alphabet) with differential evaluation of original vs rewritten DAG on a complete assignment grid, float and exact rational",
            "Every well-typed tree of the listed sizes (all kinds to size 2, boolean/select algebra to size 3, sign-inference comparison pairs, constant-only trees, casts/atan2/copysign/hypot nestings, every operation over two sign-definite operands compared with 0 and sign-definite values, every and/or/xor/not tree of depth <= 2 over shared atoms with selects on them, folds of constants inexact in float32, and graphs over a complex-typed symbol evaluated by an own complex interpreter) is built in a fresh Context, rewritten, and both DAGs are evaluated by an independent interpreter on the full 18x18 grid of special and generic values (compared where the original raises no NaN/overflow/underflow/divide-by-zero event) and exactly on a 9x9 rational grid; raises and non-termination are violations; shipped algorithms before/after fa.rewrite on lattices. Mismatches are reduced to their minimal failing sub-tree.",
            "Trusts mc.interp = NumPy semantics. Programs beyond the size bounds are not covered.", "DESIGN.md §2 C04"),
    "C05": ("exploration", "bounded program enumeration (shipped requests + complete kind-pair / constant / sharing lattice + histories of trace/emit requests on one Context) with differential execution of the emitted Python, NumPy and C++ code against an independent evaluation of the graph, plus parse-back single-assignment check",
            "Every shipped python/numpy/cpp request and every lattice program (each declared kind on symbols, outer x inner x operand position incl. select/comparison nodes, 14 constant classes in four positions, diamonds), with and without fa.rewrite, float32/float64, debug 0/1: the emitted source must load (compile/exec; g++ per batch, culprits isolated), be single-assignment (ast / C parser), and return bit-identical values on a 16x16 special+generic input grid (Python: eager math interpreter; NumPy: mc.interp; C++: the interpreter with every library primitive taken from the same libm/libstdc++ through an extern-C shim in the same shared object). Also: named-reference collisions inside ctx.call scopes, twin constants (same value, different like type / sign of zero), mixed-dtype and list-argument signatures, precision changes, and all sequences of 2 (3) trace+emit requests on one Context.",
            "Rows in which a `sign` node sees a zero are not judged in C++ (the property does not fix the sign of sign(+-0)); complex-argument C++ functions are only compiled; bitwise kinds (integer-typed) are not in the lattice.", "DESIGN.md §2 C05"),
    "C06": ("exploration", "bounded program enumeration with parse-back of the emitted StableHLO / XLA-client text by independent parsers and node-by-node comparison with the graph under an independent operator table",
            "All shipped stablehlo/xla_client requests (alt constant context for xla_client) and the kind lattice (every kind either reference table or the target's own table declares; numeric +-inf/-0.0 and named constants; twin constants) under real/complex/mixed symbols, with and without fa.rewrite: the text is parsed (S-expression reader; C tokenizer + Pratt parser), bindings are resolved in textual order (bound exactly once, before use), and the operator tree is compared with the graph: operator per kind, operand order, comparison direction, named-constant operators, ConstantLike/ScalarLike attached to a bound operand of the right element class, compile-time constant expressions of the alt context.",
            "The kind->operator tables in mc/checks/c06.py are the authority for which operator implements a kind. Text only, nothing is executed.", "DESIGN.md §2 C06"),
    "C07": ("model_checking", "explicit-state BFS over construction histories of one Context, each state rebuilt on the real code, `is` vs structural-term equality in every state",
            "Level-synchronous breadth-first search over sequences of symbol/constant/operation constructions (two families enumerated completely up to 4-5 distinct terms; a third family enumerates every ordered pair of symbol/constant specs -- like-less literals, types given as strings or NumPy classes, likes that are negative/absolute of real and complex symbols -- on three Context parameter sets, alone and after a perturbing request), canonical states = set of structural terms + first-registered member of every ==-equal constant class (the only order-sensitive behaviour), so both orders of every colliding pair are visited; after every event the new node is compared with every earlier node: same object iff same structural term (value bits incl. sign of zero, type, like).",
            "In the BFS families like-expressions are symbols (family F3 models the documented like normalisation); named constants under the documented spelling normalisation. Histories beyond the term bound are not covered.", "DESIGN.md §2 C07"),
    "C08": ("exploration", "complete kind-pair program lattice x all 25 dtype assignments, emitted NumPy code executed with debug=1",
            "Every kind the NumPy target declares (size 1), every constant class in every operand position, select/logical plumbing and the full outer x inner x position lattice are traced under every assignment of float16/32/64/complex64/128 to the symbols, emitted with debug=1 (once as written and once with a reference forced on every node, constants included, so that inline nodes are asserted too) and executed on special and generic values in both orders; an emitted dtype assertion that fires, or a result dtype different from the declared one, is a violation. Shipped NumPy requests likewise.",
            "Graphs the printer refuses or NumPy cannot execute are outside the claim. Programs deeper than the lattice are not covered.", "DESIGN.md §2 C08"),
    "C09": ("model_checking", "explicit-state exploration of request histories: all ordered pairs (and triples on a subset) from a pristine forked zygote, Eulerian-circuit walks, hash-seed sweep, against a pristine per-request table",
            "The text of every (target, function, signature) request generated alone in a pristine process is the reference; every ordered pair of requests (quick: over a 60-request subset covering every (target, function); thorough: all 172^2) is run in its own child forked from an import-only zygote, long walks cover an Eulerian circuit of the complete request digraph, and the whole catalogue is regenerated under several PYTHONHASHSEED values in both orders. The catalogue also holds the lax table, the six tools/generate_apmath_lax.py entries and four synthetic definitions x six targets (all ordered pairs among them); a further family runs all sequences of 2..3 (4) same-signature definitions on ONE Context and compares the last text with its fresh-Context text up to renaming of generated names. Every history is executed on the real generator.",
            "Depth-2 complete, depth 3 on a subset, one circuit of long walks, a finite seed set. Requests raising NotImplementedError count as deterministic text.", "DESIGN.md §2 C09"),
    "C10": ("exploration", "exhaustive enumeration of all float16 operand pairs (thorough) / all pairs of a 4096-value sub-alphabet (quick) per variant, exact comparison in a wider exact arithmetic",
            "All 4.03e9 ordered float16 pairs per 2Sum/Fast2Sum/Dekker variant (fpa, apmath, utils and the copies inlined in algorithms.py) and all finite float16 through every splitter are checked for s=RN(x+y), s+t=x+y, h=RN(xy), h+l=xy, xh+xl=x and half widths, in float64 where sums/products of float16/32 operands are exact; float32/64 on a delta-exponent product lattice. Twelve fpa/apmath variants are also run through the traced+emitted NumPy function and on NumPy scalars (bit-compared with the array route), and on one NumpyContext shared by all dtype sequences (compared with fresh contexts).",
            "Trusts float64 exactness of float16/float32 sums and products within the stated exponent spans (asserted), NumPy casts as RN-even. float32/float64 are covered on the structured lattice only.", "DESIGN.md §2 C10"),
    "C11": ("exploration", "complete Cartesian products S^3 / S^4 of boundary alphabets plus directed cancellation sets, every algorithm variant, exact correctly rounded reference",
            "next/is_power_of_two on every float16 of the documented domain; add_3sum, mul_add, 20 fma variants on S^3 and z within +-4 ULP of RN(-xy); add_4sum, dot2 on S^4; evaluated both through the traced+emitted NumPy implementation and eagerly through NumpyContext; reference = exact sum/product rounded once (float64 TwoSum + midpoint fix-up, self-checked against Fraction each run); all dtype sequences on one shared NumpyContext compared with fresh contexts.",
            "Trusts IEEE float64 arithmetic and Python Fractions. Alphabets, not all floats, for the n-ary operations.", "DESIGN.md §2 C11"),
    "C12": ("exploration", "all lists of length <= 4 (5) over a combinatorial float16 alphabet x {functional via NumpyContext, functional traced+emitted, eager} x {fast, safe} x size limits; exact sums",
            "Exact-sum preservation, normal form after two passes, truncation semantics, and exactness / 1-ulp bounds of add, subtract, multiply, square on all pairs of valid expansions and on arbitrary (overlapping, unordered, zero-containing) lists, with an independent overlap predicate (also compared with utils.overlapping).",
            "Trusts float64 exactness for sums of <= 6 float16 values, Fractions otherwise. fast=True is judged only on inputs whose non-zero items already form a decreasing non-overlapping sequence (its documented domain).", "DESIGN.md §2 C12"),
    "C13": ("exploration", "exhaustive enumeration of all 65536 float16 bit patterns and all-binade lattices for float32/64 through every conversion pair, exact integer decoding as reference",
            "Every float16 pattern (all NaN payloads) is sent through float2fraction/fraction2float, float2bin/bin2float, float2mpf/mpf2float (mpmath contexts of precision p//2, p-1, p, p+1, 2p, 20p), mpf2expansion/expansion2mpf and mpf2multiword/multiword2mpf (option grid); the intermediate object's exact value is compared with an integer decoding of the bit pattern and the round trip must be bit-identical.",
            "Trusts Python integers/Fractions and the meaning of an mpf tuple. float32/float64 are covered on the binade x 64-mantissa lattice.", "DESIGN.md §2 C13"),
    "C14": ("exploration", "all adjacent float16 pairs and k-chains, complete pair/triple products of alphabets, both flush modes, against an ordinal model",
            "diff_ulp is compared with the integer lattice distance for every finite float16 and its k<=64 neighbours, for all ordered pairs of a 2048-value alphabet (symmetry, zero-iff-equal, additivity on monotone triples), under a flush-ordinal model, for complex pairs, and ulp() against its nextafter identities for every finite float16.",
            "Trusts numpy.nextafter and the sign-magnitude integer view. float32/64 on lattices.", "DESIGN.md §2 C14"),
    "C15": ("exploration", "exhaustive enumeration of all mpf values with <= 14-bit mantissas over the whole exponent range for float16 (ties, subnormal boundaries, overflow edge), tie lattices for float32/64, all float16 inputs through the backend x option grid",
            "mpf2float is compared with an exact integer round-to-nearest-even wherever the statement promises a value; exact functions through vectorize_with_mpmath / numpy_with_mpmath on every float16 input for seven option sets must return the exact value, preserving subnormals unless flushing was requested. Bounded histories on one backend instance: every sequence of argument float types (length <= 2 quick, <= 3 thorough) x four extra-precision option sets, each call judged exactly.",
            "Trusts Fractions and mpmath's make_mpf. Results in the subnormal range are judged only where the statement promises something; flush=True uses flush-to-zero semantics.", "DESIGN.md §2 C15"),
    "C16": (
        "exploration",
        "bounded exhaustive enumeration of (scheme, flags, degree, coefficient vector, point) configurations against the Fraction definition",
        "Every (implementation x scheme x reverse x degree) configuration with generic prime-ratio coefficients, every coefficient "
        "vector of length <= 5 (6 thorough) over {0,1,-1,2,1/2}, every Laurent offset, and all (P,D) division pairs are evaluated "
        "on the real code in exact rational arithmetic and compared with the definition; a finite space enumerated completely, "
        "no sampling. Exact algebra has no tolerance, so a single disagreement decides.",
        "Trusts Python int/Fraction. Polynomials outside the enumerated degree/alphabet bounds are covered only through genericity of the coefficients.",
        "DESIGN.md §2 C16",
    ),
    "C17": ("exploration", "exhaustive enumeration of every in-domain float16, complete ULP neighbourhoods of k*ln2 / k*pi/2 and continued-fraction hard cases for float32/64, multiprecision reconstruction",
            "Every finite float16 of the stated domains, and for float32/64 the binade lattice, the complete neighbourhoods of every k*ln2 and of k*pi/2 (k<256/1024), the edges of the permitted remainder band ((k+0.4495) and (k+0.5505) times ln2 for every k, times pi/2 for k<256/1024) and the fractional lattice (k+j/16)*ln2 and the per-binade mantissas closest to multiples of pi/2 and ln2 are reduced by the real code (NumPy scalars; 0-d arrays = the type-generic path and the traced+emitted function are bit-compared with that route; dtype sequences on one shared NumpyContext are compared with fresh contexts); k, |r| and the reconstruction error are judged against ln2/pi carried as Fractions at >10x precision.",
            "Trusts mpmath's ln2 and pi and Fractions. float32/float64 off the constructed set are not covered.", "DESIGN.md §2 C17"),
    "C18": ("model_checking", "explicit-state BFS over create/enter/exit/raise histories on the real MXCSR register with an integer register + stack reference model, plus generated with/decorator programs",
            "Breadth-first search over histories (nesting depth <= 3, <= 2-3 context objects, <= 1 exception) from 9-18 initial register states and 12-45 argument combinations; contexts are created from two register objects; every transition replays the whole history on fresh fpu objects, reads the hardware register through the harness's own stmxcsr stub after every event and compares the control bits with the model; arithmetic probes confirm the body observes the mode; every failing history is replayed twice; complete nestings also run as generated source with real with-statements, try/except and the decorator form.",
            "Single thread; exception masks are never unmasked; sticky status bits are excluded from comparisons.", "DESIGN.md §2 C18"),
    "C19": ("exploration", "complete product of size x bounds x flags x dtype configurations with structural predicates on the returned arrays",
            "real_samples is called on the full product of 22+ sizes (incl. N_repr-1..N_repr+1) x 15^2 (min,max) bound pairs x flag sets x 3 dtypes; ordering, bounds, presence of requested special values, absence of subnormals/NaN, and ULP-uniformity are judged with ordinal arithmetic; the pair/triple/complex generators are compared with Cartesian products of the 1-D calls.",
            "Sizes below the documented minimum 6 and min>max are outside the domain; with unique=False only multiset properties are judged.", "DESIGN.md §2 C19"),
}

NOT_YET = "check not built yet (construction order in DESIGN.md §7); no claim is made until its quick tier is green and has caught a seeded change"


def main():
    checks = []
    for pid in ALL:
        if pid not in CHECKS:
            continue
        cat, tech, text, note, ref = CHECKS[pid]
        checks.append(
            {
                "property_id": pid,
                "quick_cmd": f"./check {pid} --tier quick",
                "thorough_cmd": f"./check {pid} --tier thorough",
                "evidence_file": f"/verif/evidence/{pid}.json",
                "replay_cmd_template": f"./check {pid} --replay {{path}}",
                "engine": "mc",
                "level_claimed": {"category": cat, "text": text, "design_ref": ref},
                "level_note": note,
                "technique": tech,
            }
        )
    man = {
        "version": 1,
        "setup_cmd": "/venv/bin/python -m compileall -q mc && /venv/bin/python -c \"import sys; sys.path.insert(0,'/repo'); import functional_algorithms\" >/dev/null 2>&1; true",
        "hooks": {
            "guard": "FA_VERIF",
            "enable": "no hooks are needed: every observation point is a public call result, emitted text, object identity or the MXCSR register read through the harness's own stub",
            "baseline_off_cmd": "cd /repo && /venv/bin/python -m pytest -ra -q -p no:cacheprovider --timeout=900 --continue-on-collection-errors",
            "source_commits": [],
            "add_only": True,
        },
        "engines": [
            {
                "name": "mc",
                "path": "/verif/mc",
                "serves_properties": sorted(CHECKS),
                "kind_free_text": "hand-written explicit enumeration / explicit-state explorer in Python driving the real functional_algorithms code (bounded exhaustive input, program and history enumeration with exact or independent reference models)",
            }
        ],
        "checks": checks,
        "notes": "Run ./check <ID> --tier quick|thorough [--seed N] [--replay FILE]; FA_REPO overrides the tree under test (default /repo). Known findings: /verif/known_findings.json.",
        "not_applicable": [{"property_id": p, "reason": NOT_YET} for p in ALL if p not in CHECKS],
    }
    with open(os.path.join(VERIF, "MANIFEST.json"), "w") as f:
        json.dump(man, f, indent=1)
        f.write("\n")


if __name__ == "__main__":
    main()
